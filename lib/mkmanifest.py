#!/usr/bin/env python3
"""Regenerates /verif/MANIFEST.json from lib/props.py (run after editing plans)."""
import json, os, sys
ROOT = os.path.dirname(os.path.dirname(os.path.abspath(__file__)))
sys.path.insert(0, os.path.join(ROOT, "lib"))
import props

ALL = [json.loads(l)["id"] for l in open(os.path.join(ROOT, "properties.jsonl"))]
hook_commits = [l.strip() for l in open(os.path.join(ROOT, "hook_commits.txt"))] if os.path.exists(os.path.join(ROOT, "hook_commits.txt")) else []
m = {
    "version": 1,
    "setup_cmd": "cd /verif && ./check setup",
    "hooks": {
        "guard": "cargo feature `verif` of the rustemo-compiler crate (off by default)",
        "enable": "the harness crate /verif/harness depends on /repo/rustemo-compiler with features=[\"verif\"]; every check runs `cargo build` of the harness first, which rebuilds both rustemo crates from /repo's working tree",
        "baseline_off_cmd": "cd /repo && cargo nextest run --workspace --no-fail-fast --test-threads 8 --offline || cargo test --workspace --no-fail-fast --offline",
        "source_commits": hook_commits,
        "add_only": True,
    },
    "engines": [
        {"name": "vh", "path": "/verif/harness", "serves_properties": sorted(props.PLANS.keys()),
         "kind_free_text": "Rust harness: drives the real compiler pipeline and the real LR/GLR runtime under generated workloads; monitors compare every execution with independent reference models (derivation enumerator, Earley, canonical LR(1), documented resolution rules) or invariants"},
        {"name": "check", "path": "/verif/check", "serves_properties": sorted(props.PLANS.keys()),
         "kind_free_text": "python driver: rebuilds, shards workers over 16 cores, aggregates event logs, known findings, evidence"},
    ],
    "checks": [],
    "not_applicable": [],
    "notes": "Technique family: runtime monitoring. Sanitizers proper (ASan/TSan/Miri) have no target in this code base (no unsafe, no threads; see DESIGN.md section 0); the Rust debug-profile checks (overflow, debug_assert, bounds) are on in every workload.",
}
for pid in ALL:
    if pid in props.PLANS:
        pl = props.PLANS[pid]
        m["checks"].append({
            "property_id": pid,
            "quick_cmd": "./check %s --tier quick" % pid,
            "thorough_cmd": "./check %s --tier thorough" % pid,
            "evidence_file": "/verif/evidence/%s.json" % pid,
            "replay_cmd_template": "./check %s --replay {path}" % pid,
            "engine": "vh",
            "level_claimed": {"category": "exploration", "text": pl.get("level_text", "held on the executions observed: " + pl["rule"]), "design_ref": "DESIGN.md section 2, " + pid},
            "level_note": pl.get("level_note", "trusted: the reference models in /verif/harness/src, rustc, the regex crates; assumptions are listed in the evidence file"),
            "technique": pl.get("technique", "runtime monitoring: reference-model oracle over executions of the real code"),
        })
    else:
        m["not_applicable"].append({"property_id": pid, "reason": props.NOT_CLAIMED.get(pid, "check not built yet (work in progress)")})
json.dump(m, open(os.path.join(ROOT, "MANIFEST.json"), "w"), indent=1)
print("claimed", len(m["checks"]), "not claimed", len(m["not_applicable"]))
