"""Generated route: build and run scratch cargo workspaces that contain parsers
written by the real compiler plus checking code emitted by the harness."""
import json, os, shutil, subprocess, time


def setup(root, target, env, log):
    pass


def ws_dir(ctx, name):
    return os.path.join(ctx["target"], "scratch", "ws_" + name)


def prepare_ws(ctx, name):
    d = ws_dir(ctx, name)
    shutil.rmtree(d, ignore_errors=True)
    os.makedirs(d, exist_ok=True)
    return d


def build_ws(ctx, name, members, message_format_json=False, check_only=False, keep_going=False):
    """Writes the workspace manifest and builds. Returns (returncode, output)."""
    d = ws_dir(ctx, name)
    with open(os.path.join(d, "Cargo.toml"), "w") as f:
        f.write("[workspace]\nresolver = \"2\"\nmembers = [%s]\n\n[profile.dev]\ndebug = 0\nopt-level = 0\nincremental = false\n" % ", ".join('"%s"' % m for m in members))
    shutil.copy("/repo/Cargo.lock", os.path.join(d, "Cargo.lock"))
    env = dict(ctx["env"], CARGO_TARGET_DIR=os.path.join(ctx["target"], "gen", name))
    cmd = ["cargo", "check" if check_only else "build", "--offline", "--workspace"]
    if keep_going:
        cmd.append("--keep-going")
    if message_format_json:
        cmd.append("--message-format=json")
    else:
        cmd.append("--quiet")
    t = time.time()
    r = subprocess.run(cmd, cwd=d, env=env, stdout=subprocess.PIPE, stderr=subprocess.PIPE, text=True)
    ctx["log"]("[cargo %s ws_%s: %d members, %.1fs, rc=%d]" % ("check" if check_only else "build", name, len(members), time.time() - t, r.returncode))
    return r.returncode, r.stdout, r.stderr


def run_member(ctx, name, member, timeout=180):
    exe = os.path.join(ctx["target"], "gen", name, "debug", member)
    timed_out = False
    try:
        r = subprocess.run([exe], stdout=subprocess.PIPE, stderr=subprocess.DEVNULL, timeout=timeout)
        stdout = r.stdout.decode(errors="replace")
    except subprocess.TimeoutExpired as e:
        # wall-clock: inconclusive for the module that was running; what finished before is still judged
        stdout = (e.stdout or b"").decode(errors="replace")
        timed_out = True
    mods = {"__timed_out__": timed_out} if timed_out else {}
    cur = None
    for line in stdout.split("\n"):
        if line.startswith("@MODULE "):
            cur = line.split()[1]
            mods[cur] = {"lines": [], "ended": False}
        elif line.startswith("@END "):
            if cur:
                mods[cur]["ended"] = True
            cur = None
        elif cur is not None:
            mods[cur]["lines"].append(line)
    return mods


def members_with_modules(ctx, name, nshards):
    out = []
    d = ws_dir(ctx, name)
    for member in sorted(os.listdir(d)) if os.path.isdir(d) else []:
        mp = os.path.join(d, member, "meta.json")
        if member.startswith("s") and os.path.exists(mp):
            meta = json.load(open(mp))
            if meta["modules"]:
                out.append((member, meta))
    return out


def cleanup_ws(ctx, name):
    if os.environ.get("VH_KEEP"):
        return
    shutil.rmtree(ws_dir(ctx, name), ignore_errors=True)
