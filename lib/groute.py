"""Generated route: compile parsers emitted by the real compiler in scratch crates."""
import os


def setup(root, target, env, log):
    pass
