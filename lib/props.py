"""Per-property plans: which workers to run, with what budgets, how to count."""
import os

NSH = 16


def sharded(worker, prop, n_quick, n_thorough, max_s_quick=150, max_s_thorough=1500, profile="dev", extra=None, nshards=NSH):
    def jobs(ctx):
        th = ctx["tier"] == "thorough"
        n = n_thorough if th else n_quick
        per = max(1, n // nshards)
        out = []
        for i in range(nshards):
            args = ["--seed", ctx["seed"], "--shard", i, "--nshards", nshards, "--tier", ctx["tier"], "--n", per,
                    "--max-s", max_s_thorough if th else max_s_quick]
            if extra:
                args += extra
            out.append(dict(worker=worker, prop=prop, args=args, profile=profile))
        return out
    return jobs


def replay_with(worker, prop, profile="dev"):
    def jobs(ctx, case, path):
        env = dict((case.get("case") or {}).get("env") or {})
        return [dict(worker=worker, prop=prop, args=["--replay", path, "--seed", ctx["seed"]], profile=profile, env=env)]
    return jobs


BNF_ASSUME = [
    "grammar texts are printed from the generator's own abstract grammar; terminals are distinct single-letter string literals, so the token string is the sentence",
    "random grammars: 1-5 non-terminals, 1-4 terminals, <=3 alternatives of <=4 symbols, EMPTY with p=0.15; reduced (productive, reachable); plus the literature corpus in harness/src/gens.rs",
    "inputs: every token string up to the length bound given in the samples (exhaustive per grammar), plus random longer sentences and their mutations",
    "parsers run through the dynamic route: real LRParser/GlrParser/StringLexer/TreeBuilder driven by the table dumped from the real pipeline (C08 ties the dump to the generated source)",
]

PLANS = {}

PLANS["C01"] = dict(
    jobs=sharded("diff", "C01", 16000, 240000, max_s_quick=90, max_s_thorough=1200), replay=replay_with("diff", "C01"),
    rule="one evaluation = one (in-scope grammar, input) pair parsed by the real LR parser under each in-scope table type and compared with Earley membership; "
         "scope is observed: the GLR-algorithm table of that type has no multi-action cell and the LR-mode table is cell-identical to it; "
         "non-trivial = distinct in-scope grammar (hash of text) with at least one accepted and one rejected input",
    assumptions=BNF_ASSUME, floor=dict(quick=40, thorough=400), exhaustive=False,
)
PLANS["C03"] = dict(
    jobs=sharded("diff", "C03", 8000, 120000, max_s_quick=90, max_s_thorough=1200), replay=replay_with("diff", "C03"),
    rule="one evaluation = one (grammar in C03 scope, input) pair: Ok iff derivation count > 0, solutions() == count, and each of get_tree(i)/iter()/(&f).into_iter()/into_iter() "
         "yields the multiset of derivation trees (normalised by dropping trailing empty children) exactly once; get_tree(n), get_tree(n+1), get_tree(n+17) yield None; "
         "non-trivial = distinct in-scope grammar with an input having >= 2 derivation trees (grammars with nullable symbols counted separately)",
    assumptions=BNF_ASSUME + ["scope computed by the oracle: acyclic and every nullable non-terminal has exactly one empty derivation; other grammars are counted as out of scope, not judged",
                              "tree enumeration compared only when the input has <= 400 trees; the count comparison always"],
    floor=dict(quick=30, thorough=300),
)
PLANS["C07"] = dict(
    jobs=sharded("diff", "C07", 16000, 240000, max_s_quick=90, max_s_thorough=1200), replay=replay_with("diff", "C07"),
    rule="one evaluation = one (conflict-free grammar, input) pair: LR (LALR and LALR_PAGER) and GLR (LALR_RN) accept the same inputs, GLR reports exactly 1 solution and its tree equals the LR tree "
         "(productions, token kinds/texts, all spans) modulo trailing empty children; non-trivial = distinct (grammar, accepted input of >= 2 tokens)",
    assumptions=BNF_ASSUME, floor=dict(quick=200, thorough=2000),
)
PLANS["C12"] = dict(
    jobs=sharded("diff", "C12", 8000, 120000, max_s_quick=90, max_s_thorough=1200), replay=replay_with("diff", "C12"),
    rule="one evaluation = one (grammar, input) pair; for a non-sentence the error offset must be the start of the first token at which the Earley item set becomes empty (end of input for a proper prefix), "
         "line/column must agree with that offset, the message must list >= 1 expected token; a sentence must never error; LR (both tables) and GLR; "
         "non-trivial = distinct (grammar, index of offending token, algorithm)",
    assumptions=BNF_ASSUME + ["grammars with a user Layout rule are not covered (see DESIGN.md C12)"],
    floor=dict(quick=200, thorough=2000),
)
PLANS["C13"] = dict(
    jobs=sharded("diff", "C13", 8000, 120000, max_s_quick=90, max_s_thorough=1200), replay=replay_with("diff", "C13"),
    rule="one evaluation = one (grammar, input) pair; every LR tree and every tree of every GLR forest (<= 64 trees) is walked: token value is the input slice at its span (pointer identity), token spans ordered, "
         "non-terminal span = [first child start, last child end], empty non-terminal zero-width between previous token end and next token start, line/column recomputed from byte offsets; "
         "non-trivial = distinct (grammar, algorithm, input) whose tree contains an empty non-terminal",
    assumptions=BNF_ASSUME + ["a quarter of the inputs are re-rendered with tabs, newlines, CRLF and leading/trailing whitespace"],
    floor=dict(quick=100, thorough=1000),
)
PLANS["C02"] = dict(
    jobs=sharded("c02", "C02", 4800, 72000, max_s_quick=90, max_s_thorough=1200), replay=replay_with("c02", "C02"),
    rule="one evaluation = one (annotated grammar, LR settings, input) triple parsed with partial_parse off and on by the real LR parser; every Ok tree is validated node by node against the abstract grammar "
         "(root = start rule, children symbols = production right-hand side, leaves = the tokens of the input / of a token prefix, kinds, texts and spans), "
         "Ok with partial off implies the identical tree with partial on; then one parser object parses a shuffled history of up to 60 of the same inputs (accepted and rejected interleaved) "
         "and every Ok tree of that object is validated the same way and compared with the fresh-object tree; non-trivial = distinct (grammar, settings) where a conflict was resolved by meta-data/settings and an input of >= 3 tokens parsed Ok",
    assumptions=BNF_ASSUME + ["random priorities {5,15,20}, left/right/reduce/shift on productions, rules and terminals, nops/nopse, prefer_shifts, prefer_shifts_over_empty, tables LALR and LALR_PAGER",
                              "runs that exceed the logical step budget (20000*(bytes+1) table queries) are counted, not judged: non-termination belongs to C15"],
    floor=dict(quick=40, thorough=400),
)
PLANS["C04"] = dict(
    jobs=sharded("c04", "C04", 16000, 300000, max_s_quick=90, max_s_thorough=1200), replay=replay_with("c04", "C04"),
    rule="one evaluation = one (grammar, table type) compiled with the GLR algorithm so that no cell is resolved; a simulation relation between the reference canonical LR(1) collection and the dumped table is built "
         "and checked completely: equal item cores, exactly the canonical transitions, look-aheads of every item = union over the related canonical states, Reduce/Accept/right-nulled entries exactly as prescribed, "
         "every table state covered (main and Layout automaton); consequences: reference-LALR(1) grammars compile conflict-free in LR mode, conflict-free tables imply <= 1 derivation for all short strings; "
         "non-trivial = distinct grammar where PAGER keeps a state split, or a table state unions different canonical look-ahead sets, or a right-nulled entry exists (counted once per kind)",
    assumptions=["grammar of the comparison = the grammar part of the dump (its faithfulness to the text is C09)", "canonical collections above 5000 states are counted as inconclusive",
                 "grammars without meta-data; random BNF up to 6 non-terminals / 5 terminals plus the literature corpus, 20% with an added Layout rule"],
    floor=dict(quick=60, thorough=600),
)
PLANS["C05"] = dict(
    jobs=sharded("c05", "C05", 12000, 200000, max_s_quick=90, max_s_thorough=1200), replay=replay_with("c05", "C05"),
    rule="(A) one evaluation = one conflict cell (>= 2 candidate actions in the unresolved table of the same grammar without meta-data) of an annotated grammar; 2-candidate cells must equal the documented rule "
         "computed as a pure function; >= 3 candidates: kept actions are a non-empty subset; LR returns Err iff a multi-action cell remains, GLR keeps them; the compiler never aborts. "
         "(B) one evaluation = one expression parsed by an annotated operator grammar and compared with a precedence-climbing parser. "
         "non-trivial = distinct (deciding rule, algorithm, prefer_shifts, prefer_shifts_over_empty) combination exercised, plus distinct operator-table shapes",
    assumptions=["priority of a shift = highest priority among the productions shifting that terminal in the state (10 for Accept), as documented", "LR algorithm combined with the RN table type is not judged (undocumented combination)",
                 "cells with >= 3 candidates only get the weak check (resolution order among them is not documented)",
                 "operator grammars: associativity is a property of a priority level and is written in one place per level (production, terminal or both); with no associativity anywhere prefer_shifts makes operators right-associative"],
    floor=dict(quick=12, thorough=40),
)
PLANS["C06"] = dict(
    jobs=sharded("c06", "C06", 640, 9600, max_s_quick=90, max_s_thorough=1200), replay=replay_with("c06", "C06"),
    rule="one evaluation = one (terminal set with overlaps and priorities, strategy setting, algorithm, input) tuple; inputs are ALL strings up to the length bound over the terminals' alphabet. "
         "LR: the token sequence the real parser acted on (leaves of its tree), or its error offset, must equal an oracle-side LR walk of the dumped table driven by the documented selection "
         "(priority > most specific > longest match > grammar order) over the terminals expected in the current state. GLR (flat family, all strategies optional): the set of token paths over all trees and solutions() "
         "must equal the set of survivor paths. non-trivial = distinct (terminal set, settings) having a position where >= 2 expected terminals match and the strategies change the winner",
    assumptions=["regex terminals are matched at the current position (top-level alternations are written both bare and parenthesised)",
                 "no regex of the pool matches the empty string; no two string recognisers are equal",
                 "two grammar families: flat (S: S T | T; T: t1|..|tn, every state expects every terminal) and contextual ((X Y)+ with disjoint expected sets); GLR is judged on the flat family only, "
                 "because there the survivors form a state-independent lattice",
                 "alphabet {a,b,c,blank} plus 1 when a terminal mentions digits; length bound 5 (quick) / 6 (thorough), exhaustive"],
    floor=dict(quick=30, thorough=200), exhaustive=False,
)
PLANS["C09"] = dict(
    jobs=sharded("c09", "C09", 16000, 240000, max_s_quick=90, max_s_thorough=1200), replay=replay_with("c09", "C09"),
    rule="one evaluation = one generated grammar text (alternatives, EMPTY, named/?= assignments, inline literals, ? * + with separators, meta-data on rules, productions and terminals) whose dumped grammar is compared "
         "structurally with the generator's abstract grammar: one production per alternative with its symbols in order, inline literal -> declared terminal, first rule = start, production meta-data else rule meta-data "
         "(priority, associativity, nops, nopse, kind, user keys), assignment names and ?= flags, helper rules shaped as documented and shared exactly by identical uses, nothing else in the grammar; "
         "for grammars whose documented expansion is in GLR scope the accepted language (all strings up to the bound) equals the Earley language of the expansion; a syntax error on generated (valid) text is a violation. "
         "non-trivial = distinct grammar using sugar, rule-level meta-data, inline literals or assignments",
    assumptions=["terminals are single-letter string literals", "user rule names never collide with helper names (A1, A0, AOpt)",
                 "fence of listed finding sep-helper-name: all + / * uses of one symbol carry the same separator setting",
                 "the `nops` the book writes on `A0: A1` is not judged (it does not change the language of the expansion)",
                 "language comparison strips meta-data (priorities legitimately remove parses) and is skipped when the expansion is cyclic or epsilon-ambiguous"],
    floor=dict(quick=100, thorough=1000),
)
PLANS["C14"] = dict(
    jobs=sharded("c14", "C14", 6400, 96000, max_s_quick=90, max_s_thorough=1200), replay=replay_with("c14", "C14"),
    rule="one evaluation = one (conflict-free grammar, layout family, sentence rendering) parsed by the real LR parser with the generic TreeBuilder; for every leaf in order stored layout + token text must rebuild the input "
         "byte for byte up to trailing layout, every stored layout must be accepted by an independent recogniser of the family (whitespace; + line comments; + nested block comments), and the tree of the sentence "
         "with random layout inserted (also none between single-letter tokens, NBSP/EM SPACE, CRLF, comments at end of input) must equal the tree of the blank-separated sentence; "
         "non-trivial = distinct (grammar+family, input) whose tree stores layout before >= 2 tokens",
    assumptions=BNF_ASSUME[:2] + ["four layout families: default whitespace skipping and three user Layout rules (the comment family is the one of rustemo's own grammar language)",
                                  "comment bodies are generated without `//` inside block comments (a CommentLine there swallows the closing `*/` by longest match, as in rustemo's own language)",
                                  "terminals never start like a layout opener"],
    floor=dict(quick=200, thorough=2000),
)
def c15_jobs(ctx):
    th = ctx["tier"] == "thorough"
    out = []
    for prof in ("dev", "release"):
        for i in range(NSH):
            args = ["--seed", ctx["seed"], "--shard", i, "--nshards", NSH, "--tier", ctx["tier"], "--n", (400 if th else 40), "--max-s", (900 if th else 100)]
            env = {}
            if prof == "dev" and i == NSH - 1:
                env["RUSTEMO_TRACE"] = "1"  # log! bodies are evaluated (debug build only)
            out.append(dict(worker="c15", prop="C15", args=args, profile=prof, env=env))
        # GLR on 20000..200000-token inputs with a 2 MiB stack (Rust's default for spawned threads); see c15.rs (f)
        args = ["--seed", ctx["seed"], "--shard", NSH, "--nshards", NSH + 1, "--tier", ctx["tier"], "--n", 1, "--max-s", (900 if th else 100)]
        out.append(dict(worker="c15", prop="C15", args=args, profile=prof, env={"VH_C15_DEEP": "1", "VH_STACK_MB": "2"}))
    return out


PLANS["C15"] = dict(
    jobs=c15_jobs, replay=replay_with("c15", "C15"), profiles=("dev", "release"), abort_is_violation=True,
    rule="one evaluation = one parse call (LR or GLR, default lexer or one of three hostile user lexers) under catch_unwind with a logical clock that counts every table query, recogniser call and lexer call; "
         "verdict: panic (any payload) or more than 20000*(bytes+1) steps = violation, process abort = violation, stuck-case watchdog (CPU seconds since the last progress mark) = inconclusive. Grammars: every .rustemo file shipped in the repository, "
         "the literature corpus, random BNF (+ Layout families), lexically ambiguous terminal sets; inputs: sentences and mutations, 30 fixed Unicode/control-character noise strings, literals cut in the middle, "
         "unterminated comments, 10^5-byte inputs, 20000-token deep recursions; one worker per build runs the GLR parser over 20000-200000-token inputs (valid, and invalid at the end) on a 2 MiB stack. Debug (overflow checks, debug_assert, one shard with RUSTEMO_TRACE=1) and release builds. "
         "non-trivial = distinct (grammar, algorithm, lexer mode, outcome kind)",
    assumptions=["hostile lexers keep the token kind inside the generated TokenKind range and never return zero-width non-STOP tokens (outside the statement of C15)",
                 "fence of listed findings lr-epsilon-loop / lr-reduction-cycle-cyclic-grammar: LR grammars of this workload carry no meta-data, conflicts are resolved by prefer_shifts only, and cyclic grammars (reference analysis) are only compiled for GLR",
                 "Forest::solutions() and tree extraction are not part of parse() and are not called here"],
    floor=dict(quick=300, thorough=1500),
)
PLANS["C16"] = dict(
    jobs=sharded("c16", "C16", 9600, 160000, max_s_quick=90, max_s_thorough=1200), replay=replay_with("c16", "C16"), abort_is_violation=True,
    rule="one evaluation = one process_grammar call under catch_unwind (a process abort is caught through the case file the worker leaves behind): the result must be Ok or Err with a non-empty message. "
         "Texts: 115 hand-written exemplars (one per construct of the grammar language including the unimplemented ones, reserved names, duplicates, numeric extremes, Rust keywords) under the full lattice "
         "{LR,GLR} x 3 table types x prefer-shift settings x {default, generic} builder; every .rustemo file of the repository; outputs of all harness generators; 1-3 rounds of token-level and character-level "
         "mutation of all of these under random settings. non-trivial = distinct outcome class (Ok, or the first words of the error message)",
    assumptions=["in-process execution; stack overflows and aborts are observed as worker death with the current case recorded"],
    floor=dict(quick=40, thorough=60),
)
import groute  # noqa: E402
import json  # noqa: E402
import hashlib  # noqa: E402


def gen_jobs(worker, prop, n_quick, n_thorough, wsname, nshards=NSH, extra=None):
    def jobs(ctx):
        th = ctx["tier"] == "thorough"
        ws = groute.prepare_ws(ctx, wsname)
        out = []
        for i in range(nshards):
            args = ["--seed", ctx["seed"], "--shard", i, "--nshards", nshards, "--tier", ctx["tier"], "--n", (n_thorough if th else n_quick), "--crate-dir", os.path.join(ws, "s%d" % i)]
            if extra:
                args += extra
            out.append(dict(worker=worker, prop=prop, args=args))
        return out
    return jobs


def gen_replay(worker, prop, wsname):
    def jobs(ctx, case, path):
        if ctx.get("witness_no") is not None:
            # witness of a listed finding inside a normal run: its own member crate, shard number outside the normal range
            ws = groute.ws_dir(ctx, wsname)
            k = 100 + ctx["witness_no"]
            return [dict(worker=worker, prop=prop, args=["--replay", path, "--seed", ctx["seed"], "--shard", k, "--crate-dir", os.path.join(ws, "s%d" % k)])]
        ws = groute.prepare_ws(ctx, wsname)
        return [dict(worker=worker, prop=prop, args=["--replay", path, "--seed", ctx["seed"], "--crate-dir", os.path.join(ws, "s0")])]
    return jobs


def c08_post(ctx, results, wsname="c08"):
    recs = []
    members = groute.members_with_modules(ctx, wsname, NSH)
    if not members:
        return [dict(k="harness_error", what="no module generated", case=None)]
    rc, out, err = groute.build_ws(ctx, wsname, [m for m, _ in members])
    if rc != 0:
        # whether generated code compiles is C11's business; here it blocks the comparison
        recs.append(dict(k="harness_error", what="scratch workspace does not build: " + err[-1500:], case=None))
        return recs
    counters = dict(evaluations=0, modules_compared=0, lines_compared=0)
    distinct = {"nontrivial": set()}
    samples = []
    for member, meta in members:
        mods = groute.run_member(ctx, wsname, member)
        timed_out = mods.pop("__timed_out__", False)
        for m in meta["modules"]:
            got = mods.get(m["name"])
            info = m["info"]
            sig_base = hashlib.sha1((info["grammar"] + json.dumps(info["settings"], sort_keys=True)).encode()).hexdigest()[:16]
            case = {"info": info}
            if timed_out and (got is None or not got["ended"]):
                counters["inconclusive:wall-clock"] = counters.get("inconclusive:wall-clock", 0) + 1
                ctx["log"]("INCONCLUSIVE: generated program %s stopped by the wall-clock limit in/before module %s" % (member, m["name"]))
                continue
            counters["modules_compared"] += 1
            if got is None or not got["ended"]:
                recs.append(dict(k="viol", prop="C08", sig="crash:" + sig_base, what="generated parser crashed while being interrogated (module %s)" % m["name"], case=case))
                continue
            exp, lines = m["expected"], got["lines"]
            counters["lines_compared"] += len(exp)
            counters["evaluations"] += len(exp)
            bad = None
            for i, e in enumerate(exp):
                if i >= len(lines) or lines[i] != e:
                    bad = (i, e, lines[i] if i < len(lines) else "<missing>")
                    break
            if bad is None and len(lines) != len(exp):
                bad = (len(exp), "<end>", lines[len(exp)])
            if bad:
                kind = bad[1].split(" ")[0]
                what = {"A": "action query", "G": "goto query", "E": "expected-token query", "P": "parse result (generated source vs table driven through the same runtime)", "L": "default layout state", "LM": "lexical strategy flags",
                        "SV": "State enum values", "TV": "TokenKind enum values", "NV": "NonTermKind enum values", "PV": "ProdKind enum values", "PN": "ProdKind -> NonTermKind"}.get(kind, kind)
                if kind == "P":
                    idx = int(bad[1].split(" ")[1])
                    case["input"] = info["inputs"][idx] if idx < len(info["inputs"]) else None
                recs.append(dict(k="viol", prop="C08", sig="%s:%s" % (kind, sig_base),
                                 what="generated source answers a %s differently from the computed table: expected `%s`, got `%s`" % (what, bad[1][:200], bad[2][:200]), case=case))
            else:
                if info.get("multi_action_cell") or info.get("state_without_goto"):
                    distinct["nontrivial"].add(sig_base)
                distinct.setdefault("modules", set()).add(sig_base)
                if len(samples) < 3:
                    samples.append({"grammar": info["grammar"], "settings": {k: info["settings"][k] for k in ("glr", "gen_table")}, "states": info["states"], "lines_compared": len(exp), "inputs_parsed": len(info["inputs"])})
    groute.cleanup_ws(ctx, wsname)
    recs.append(dict(k="stat", counters=counters, distinct={k: list(v) for k, v in distinct.items()}, samples=samples))
    return recs


PLANS["C08"] = dict(
    jobs=gen_jobs("c08", "C08", 6, 60, "c08"), replay=gen_replay("c08", "C08", "c08"), post=c08_post, post_replay=lambda ctx, results, case: c08_post(ctx, results),
    evaluations_key="evaluations",
    rule="one evaluation = one compared answer of a generated parser module (compiled by rustc from the source the real compiler wrote): every (state, token) action query, every (state, non-terminal) goto query "
         "(undefined cells must panic), every expected-token query, default layout state, strategy flags, the integer value of every enum variant, ProdKind -> NonTermKind, and the rendering of every parse result "
         "(tree with all spans, or error offset) - expected values come from the table dump and from the same inputs driven through the dynamic route; each grammar is generated as Functions and Arrays layout, LR and GLR. "
         "non-trivial = distinct (grammar, layout, algorithm) module having a multi-action cell or a state without gotos",
    assumptions=["grammars: random BNF, context family, literature corpus, lexically overlapping terminal sets, Layout families", "LR modules use prefer_shifts so that more grammars are deterministic",
                 "GLR trees are compared for inputs with <= 12 solutions"],
    floor=dict(quick=20, thorough=200), wall_cap=dict(quick=900, thorough=7200),
)
import re  # noqa: E402


def enclosing_fn(path, line):
    try:
        lines = open(path, errors="replace").read().split("\n")
    except Exception:
        return "?"
    for i in range(min(line, len(lines)) - 1, -1, -1):
        m = re.match(r"\s*(pub(\([a-z ]+\))? )?fn ([A-Za-z0-9_]+)", lines[i])
        if m:
            return m.group(3)
    return "?"


def c11_signature(diag, ws):
    """Call-site signature of a rustc diagnostic: (code, file kind, enclosing generated function, highlighted token class)."""
    code = (diag.get("code") or {}).get("code") or "none"
    spans = [s for s in diag.get("spans", []) if s.get("is_primary")] or diag.get("spans", [])
    if not spans:
        return code + ":nospan", None, None
    sp = spans[0]
    fname = sp["file_name"]
    kind = "actions" if fname.endswith("_actions.rs") else "parser"
    hl = ""
    if sp.get("text"):
        t = sp["text"][0]
        hl = t["text"][t["highlight_start"] - 1:t["highlight_end"] - 1]
    fn = enclosing_fn(os.path.join(ws, fname), sp["line_start"])
    # rustc reports a wrong argument either at the argument ("mismatched types", highlighted `None`) or,
    # for several wrong arguments, at the callee ("arguments to this function are incorrect") with one
    # "expected `T`, found `Option<_>`" note per argument. The literal `None` / `Box::new(None)` is the only
    # expression of type Option<_> the generator writes into reduce_action (right-nulled arms).
    texts = [x.get("label") or "" for x in diag.get("spans", [])] + [c.get("message", "") for c in diag.get("children", [])]
    founds = []
    for t in texts:
        founds += re.findall(r"expected `[^`]*`, found `([^`]*)`", t)
    def hl_of(x):
        if not x.get("text"):
            return ""
        t = x["text"][0]
        return t["text"][t["highlight_start"] - 1:t["highlight_end"] - 1].replace(" ", "")
    # third phrasing: "unexpected argument #3 of type `Box<Option<_>>`" / "argument #2 of type `T` is missing", highlighted at the literal
    arg_hl = [hl_of(x) for x in diag.get("spans", []) if "argument #" in (x.get("label") or "")]
    none_like = ("None", "Box::new(None)")
    if (code == "E0308" and kind == "parser" and fn == "reduce_action" and (founds or arg_hl)
            and all(f in ("Option<_>", "Box<Option<_>>") for f in founds) and all(h in none_like for h in arg_hl)):
        tok = "None-argument"
    elif code == "E0391":
        tok = "type-alias-cycle" if "type alias" in diag.get("message", "") or any("type alias" in c.get("message", "") for c in diag.get("children", [])) else "cycle"
    else:
        tok = re.sub(r"[0-9]+", "N", hl)[:40]
    if code == "E0391":
        fn = "-"
    return "%s:%s:%s:%s" % (code, kind, fn, tok), fname, sp["line_start"]


def c11_post(ctx, results, wsname="c11"):
    recs = []
    members = groute.members_with_modules(ctx, wsname, NSH)
    if not members:
        return [dict(k="harness_error", what="no module generated", case=None)]
    ws = groute.ws_dir(ctx, wsname)
    infos = {}
    for member, meta in members:
        for m in meta["modules"]:
            infos[(member, m["name"])] = m["info"]
    per_module = {}
    other = []
    # rustc stops a crate at the first failing phase, so a module with (say) a resolution error would hide the
    # type errors of its neighbours: failing modules are taken out and the workspace is checked again
    all_out = ""
    for round_no in range(5):
        rc, out, err = groute.build_ws(ctx, wsname, [m for m, _ in members], message_format_json=True, check_only=True, keep_going=True)
        all_out += out + "\n"
        if rc == 0:
            break
        failing = set()
        for line in out.split("\n"):
            if line.startswith("{") and '"compiler-message"' in line and '"level":"error"' in line:
                for mm in re.finditer(r"(s[0-9]+)/src/(g[0-9]+)(?:_actions|_lexer)?\.rs", line):
                    failing.add((mm.group(1), mm.group(2)))
        if not failing:
            break
        for member, g in failing:
            mp = os.path.join(ws, member, "src", "main.rs")
            src = open(mp).read().split("\n")
            pat = re.compile(r"\b%s(_actions|_lexer)?\b|\bcheck_%s\b" % (g, g))
            open(mp, "w").write("\n".join(l for l in src if not pat.search(l)))
    out = all_out
    for line in out.split("\n"):
        if not line.startswith("{"):
            continue
        try:
            j = json.loads(line)
        except Exception:
            continue
        if j.get("reason") != "compiler-message":
            continue
        d = j["message"]
        if d.get("level") != "error" or d.get("message", "").startswith("aborting due to") or d.get("message", "").startswith("could not compile"):
            continue
        sig, fname, line_no = c11_signature(d, ws)
        mm = re.match(r"(s[0-9]+)/src/(g[0-9]+)(_actions)?\.rs$", fname or "")
        if not mm:
            other.append(d.get("message", "")[:300])
            continue
        per_module.setdefault((mm.group(1), mm.group(2)), []).append((sig, d.get("message", "")[:200], fname, line_no))
    if rc != 0 and not per_module:
        recs.append(dict(k="harness_error", what="cargo check failed without attributable diagnostics: %s %s" % (other[:2], err[-800:]), case=None))
    counters = dict(modules_checked=len(infos), modules_with_errors=len(per_module), evaluations_checked=len(infos))
    distinct = {"nontrivial": set(), "setting_combinations": set()}
    samples = []
    for key, info in infos.items():
        st = info["settings"]
        distinct["setting_combinations"].add("%s|%s|%s|%s|%s|%s" % (st["glr"], st["builder"], st["gen_table"], st["loc_info"], st["fancy"], st["custom_lexer"]))
        distinct["nontrivial"].add(hashlib.sha1((info["grammar"] + json.dumps(st, sort_keys=True)).encode()).hexdigest()[:16])
        if len(samples) < 3 and key not in per_module:
            samples.append({"grammar": info["grammar"], "settings": st, "compiles": True})
    for key, diags in per_module.items():
        info = infos.get(key)
        if info is None:
            continue
        seen = set()
        for sig, msg, fname, line_no in diags:
            if sig in seen:
                continue
            seen.add(sig)
            recs.append(dict(k="viol", prop="C11", sig=sig, what="generated %s does not type-check: %s (%s line %s)" % ("actions" if fname.endswith("_actions.rs") else "parser", msg, os.path.basename(fname), line_no),
                             case={"info": info, "diagnostic": msg, "file": fname, "line": line_no}))
    groute.cleanup_ws(ctx, wsname)
    recs.append(dict(k="stat", counters=counters, distinct={k: list(v) for k, v in distinct.items()}, samples=samples))
    return recs


PLANS["C11"] = dict(
    jobs=gen_jobs("c11", "C11", 30, 300, "c11"), replay=gen_replay("c11", "C11", "c11"), post=c11_post, post_replay=lambda ctx, results, case: c11_post(ctx, results),
    evaluations_key="evaluations",
    rule="one evaluation = one (grammar, setting combination) given to the real compiler; every accepted one leaves its parser (and actions) in a scratch crate that rustc type-checks against the runtime crate (cargo check, JSON diagnostics, "
         "each error attributed to its module by file path). Grammars: `ast` shapes (enum/struct/reference/vector/optional, recursive types, named and ?= assignments, sugar with separators, @vec in both directions, production kinds) "
         "and random BNF with unreachable rules and cycles; settings walk the lattice {LR,GLR} x {default,generic,custom builder} x {functions,arrays} x loc_info x fancy_regex x {default,custom lexer} x partial_parse. "
         "non-trivial = distinct accepted (grammar, settings) module",
    assumptions=["rule, terminal and assignment names come from a pool that avoids Rust prelude and generated identifiers (Option, Vec, Box, String, Token, Ctx, State, ...); assignment names are unique per production",
                 "known findings are identified by call site: (rustc code, generated file kind, enclosing generated function, highlighted token class)",
                 "fence of listed finding duplicate-kind-type-names: a production kind is used at most once per grammar"],
    floor=dict(quick=100, thorough=1000), wall_cap=dict(quick=1200, thorough=7200),
)
STRLIT = re.compile(r'"((?:[^"\\]|\\.)*)"')
LOCVAL = re.compile(r'ValSpan \{ value: "((?:[^"\\]|\\.)*)", span: Some\(\[?(\d+)\((\d+),(\d+)\)(?:-(\d+)\((\d+),(\d+)\)\])?\)')


def build_ws_dropping_failures(ctx, wsname, members, infos, known_sigs):
    """cargo build; modules that do not compile are removed (that is C11's business) and counted."""
    ws = groute.ws_dir(ctx, wsname)
    dropped = {}
    for round_no in range(6):
        rc, out, err = groute.build_ws(ctx, wsname, [m for m, _ in members], message_format_json=True, keep_going=True)
        if rc == 0:
            return True, dropped
        failing = {}
        for line in out.split("\n"):
            if not (line.startswith("{") and '"compiler-message"' in line):
                continue
            try:
                d = json.loads(line)["message"]
            except Exception:
                continue
            if d.get("level") != "error" or not d.get("spans"):
                continue
            sig, fname, _ = c11_signature(d, ws)
            mm = re.match(r"(s[0-9]+)/src/(g[0-9]+)(_actions|_lexer)?\.rs$", fname or "")
            if mm:
                failing.setdefault((mm.group(1), mm.group(2)), set()).add(sig)
        if not failing:
            ctx["log"]("build failed without attributable diagnostics: " + err[-600:])
            return False, dropped
        for (member, g), sigs in failing.items():
            dropped[(member, g)] = sigs
            mp = os.path.join(ws, member, "src", "main.rs")
            src = open(mp).read().split("\n")
            pat = re.compile(r"\b%s(_actions|_lexer)?\b|\bcheck_%s\b" % (g, g))
            # the check function body spans several lines: cut it out as a block
            outl, skip = [], False
            for l in src:
                if l.startswith("fn check_%s()" % g):
                    skip = True
                if skip:
                    if l == "}":
                        skip = False
                    continue
                if pat.search(l):
                    continue
                outl.append(l)
            open(mp, "w").write("\n".join(outl))
    return False, dropped


def c10_judge_output(sent, glr, loc, line):
    """line = 'OK <n> <debug>' ; returns list of problems."""
    problems = []
    parts = line.split(" ", 2)
    dbg = parts[2] if len(parts) > 2 else ""
    lits = [m.group(1) for m in STRLIT.finditer(dbg)]
    if sent.get("lexamb"):
        # lexically ambiguous grammar: the trees of the forest cut the input differently, but each carries all of it
        if "".join(lits) != "".join(sent["content"]):
            problems.append(("content", "AST carries the token texts %s, which do not spell the input's content %r" % (lits[:30], "".join(sent["content"])[:120])))
        return problems, dbg
    if lits != sent["content"]:
        problems.append(("content", "AST carries the token texts %s but the input's content tokens are, in order, %s" % (lits[:30], sent["content"][:30])))
    if loc:
        # every located token value must be the input slice at its span
        inp = sent["input"].encode()
        for m in LOCVAL.finditer(dbg):
            val, a = m.group(1), int(m.group(2))
            b = int(m.group(5)) if m.group(5) else a
            if inp[a:b].decode(errors="replace") != val:
                problems.append(("span", "located value %r has span [%d-%d] but the input has %r there" % (val, a, b, inp[a:b].decode(errors="replace"))))
                break
    if sent["unique"] and os.environ.get("VH_C10_CALIBRATE"):
        bare0 = STRLIT.sub('""', dbg)
        nn, ne = len(re.findall(r"\bNone\b", bare0)), bare0.count("[]")
        with open("/tmp/w/c10_calib.jsonl", "a") as f:
            f.write(json.dumps({"glr": glr, "none": nn, "empty_vec": ne, "absent_opts": sent["absent_opts"], "empty_stars": sent["empty_stars"], "empty_alts": sent["empty_alts"], "empty_alts_vec": sent.get("empty_alts_vec", 0), "dbg": dbg[:300], "input": sent["input"]}) + "\n")
    if sent["unique"]:
        # optional parts yield None exactly when absent: every `?` not taken, every `*` that matched nothing and
        # every explicit EMPTY alternative taken shows as one None (or one empty vector), nothing else does
        bare1 = STRLIT.sub('""', dbg)
        nn = len(re.findall(r"\bNone\b", bare1)) + bare1.count("[]")
        en = sent["absent_opts"] + sent["empty_stars"] + sent["empty_alts"]
        if nn != en:
            problems.append(("nones", "AST shows %d None/[] but the (unique) derivation has %d absent optional parts (%d `?` not taken, %d empty `*`, %d EMPTY alternatives)" % (nn, en, sent["absent_opts"], sent["empty_stars"], sent["empty_alts"])))
    if sent["unique"]:
        bare = STRLIT.sub('""', dbg)
        nt, nf = len(re.findall(r"\btrue\b", bare)), len(re.findall(r"\bfalse\b", bare))
        et, ef = sum(1 for x in sent["bools"] if x), sum(1 for x in sent["bools"] if not x)
        if (nt, nf) != (et, ef):
            problems.append(("bools", "AST shows %d true / %d false but the (unique) derivation has %d present / %d absent `?=` bindings" % (nt, nf, et, ef)))
    return problems, dbg


def c10_post(ctx, results, wsname="c10"):
    recs = []
    members = groute.members_with_modules(ctx, wsname, NSH)
    if not members:
        return [dict(k="harness_error", what="no module generated", case=None)]
    infos = {}
    for member, meta in members:
        for m in meta["modules"]:
            infos[(member, m["name"])] = m["info"]
    known = json.load(open(os.path.join(ctx["root"], "known_findings.json")))
    c11_known = set(sg for f in known["findings"] if f["property"] == "C11" for sg in f.get("sigs", []))
    ok, dropped = build_ws_dropping_failures(ctx, wsname, members, infos, c11_known)
    if not ok:
        return [dict(k="harness_error", what="scratch workspace does not build", case=None)]
    counters = dict(evaluations=0, modules_run=0, modules_blocked_by_listed_C11_finding=0, modules_not_compiling_other=0, lr_rejections_not_judged=0, glr_lr_pairs_compared=0, asts_judged=0, unique_derivations=0)
    for key, sigs in dropped.items():
        if sigs <= c11_known:
            counters["modules_blocked_by_listed_C11_finding"] += 1
        else:
            counters["modules_not_compiling_other"] += 1
    distinct = {"nontrivial": set()}
    samples = []
    outputs = {}
    for member, meta in members:
        mods = groute.run_member(ctx, wsname, member)
        timed_out = mods.pop("__timed_out__", False)
        for m in meta["modules"]:
            if (member, m["name"]) in dropped:
                continue
            got = mods.get(m["name"])
            info = m["info"]
            st = info["settings"]
            sig_base = hashlib.sha1((info["grammar"] + json.dumps(st, sort_keys=True)).encode()).hexdigest()[:16]
            if timed_out and (got is None or not got["ended"]):
                counters["inconclusive:wall-clock"] = counters.get("inconclusive:wall-clock", 0) + 1
                ctx["log"]("INCONCLUSIVE: generated program %s stopped by the wall-clock limit in/before module %s" % (member, m["name"]))
                continue
            if got is None or not got["ended"]:
                recs.append(dict(k="viol", prop="C10", sig="crash:" + sig_base, what="generated parser aborted", case={"info": info}))
                continue
            counters["modules_run"] += 1
            lines = {}
            for l in got["lines"]:
                if l.startswith("P ") or l.startswith("R "):
                    tag, idx, rest = l.split(" ", 2)
                    lines[(tag, int(idx))] = rest
                elif l.startswith("Q "):
                    # tree number k >= 1 of a small GLR forest
                    _, idx, k, rest = l.split(" ", 3)
                    lines[("Q%s" % k, int(idx))] = rest
            todo = [("P", i, sent) for i, sent in enumerate(info["sentences"])]
            # LR modules also parse every sentence with one reused parser object, each after a failing parse
            todo += [("R", i, sent) for i, sent in enumerate(info["sentences"]) if ("R", i) in lines]
            todo += [(t, i, info["sentences"][i]) for (t, i) in sorted(lines) if t.startswith("Q") and i < len(info["sentences"])]
            for tag, i, sent in todo:
                counters["evaluations"] += 1
                line = lines.get((tag, i), "<missing>")
                case = {"info": dict(info, sentences=[sent]), "output": line[:1500], "mode": "fresh parser" if tag == "P" else ("parser object reused after a failed parse" if tag == "R" else "tree #%s of the forest" % tag[1:])}
                if tag == "R":
                    counters["reused_parser_parses"] = counters.get("reused_parser_parses", 0) + 1
                if tag.startswith("Q"):
                    counters["other_forest_trees_replayed"] = counters.get("other_forest_trees_replayed", 0) + 1
                pre = "" if tag == "P" else ("reuse-" if tag == "R" else "tree%s-" % tag[1:])
                if line.startswith("PANIC"):
                    recs.append(dict(k="viol", prop="C10", sig="%spanic:%s:%d" % (pre, sig_base, i), what="building the AST panicked on %r (%s)" % (sent["input"], case["mode"]), case=case))
                    continue
                if line.startswith("ERR") or line == "<missing>":
                    if st["glr"]:
                        recs.append(dict(k="viol", prop="C10", sig="glr-reject:%s:%d" % (sig_base, i), what="GLR parser rejects a sentence of its grammar: %s" % line[:200], case=case))
                    else:
                        counters["lr_rejections_not_judged"] += 1  # prefer_shifts may cut the language of an ambiguous grammar
                    continue
                problems, dbg = c10_judge_output(sent, st["glr"], st["loc_info"], line)
                counters["asts_judged"] += 1
                if sent["unique"] and tag == "P":
                    counters["unique_derivations"] += 1
                    outputs[(member, info["group"], st["loc_info"], i, st["glr"])] = (dbg, case, sig_base)
                for kind, text in problems:
                    recs.append(dict(k="viol", prop="C10", sig="%s%s:%s:%d" % (pre, kind, sig_base, i), what="%s default AST of %r (%s): %s" % ("GLR" if st["glr"] else "LR", sent["input"][:80], case["mode"], text[:500]), case=case))
                if not problems and len(sent["content"]) >= 2:
                    distinct["nontrivial"].add(hashlib.sha1((info["grammar"] + sent["input"]).encode()).hexdigest()[:16])
                    if len(samples) < 3:
                        samples.append({"grammar": info["grammar"], "algo": "GLR" if st["glr"] else "LR", "loc_info": st["loc_info"], "input": sent["input"], "content_tokens": sent["content"], "ast": dbg[:400]})
    # GLR replay == LR value for unique derivations
    for key, (dbg, case, sig_base) in outputs.items():
        if key[4]:
            continue
        other = outputs.get(key[:4] + (True,))
        if other is None:
            continue
        counters["glr_lr_pairs_compared"] += 1
        if other[0] != dbg:
            recs.append(dict(k="viol", prop="C10", sig="glr-vs-lr:%s:%d" % (sig_base, key[3]), what="GLR tree replayed through the default builder differs from the LR value for an input with a unique derivation", case=dict(case, glr_output=other[0][:1500])))
    groute.cleanup_ws(ctx, wsname)
    recs.append(dict(k="stat", counters=counters, distinct={k: list(v) for k, v in distinct.items()}, samples=samples))
    return recs


PLANS["C10"] = dict(
    jobs=gen_jobs("c10", "C10", 16, 160, "c10"), replay=gen_replay("c10", "C10", "c10"), post=c10_post, post_replay=lambda ctx, results, case: c10_post(ctx, results),
    rule="one evaluation = one (grammar, {LR,GLR}, loc_info off/on, sentence) run through the parser rustc compiled from the generated source with the generated default builder; sentences are random derivations of the written grammar "
         "in which every regex token has a unique text, so the Debug rendering of the returned value must contain exactly the content-token texts of the input, each once, in input order; with loc_info every located value must be the "
         "input slice at its span; when the derivation is unique (reference enumerator) the numbers of true/false equal the present/absent ?= bindings and the GLR first tree replayed through the builder renders identically to the LR value. "
         "non-trivial = distinct (grammar, input) with >= 2 content tokens whose AST passed all checks",
    assumptions=["fence of listed finding qassign-not-implemented: the generator writes `=` wherever the `ast` generator would write `?=`; the ?= presence check only runs on the witness",
                 "LR modules use prefer_shifts; an LR rejection of a sentence of an ambiguous grammar is counted, not judged; cyclic grammars are not compiled for LR (fence of the listed C15 finding lr-reduction-cycle-cyclic-grammar)",
                 "modules that do not compile are C11's business: they are removed and counted (blocked by a listed C11 finding / other)",
                 "fence of the listed C09 finding sep-helper-name in the `ast` generator: one separator setting per symbol",
                 "for unique derivations the number of None plus [] must equal the number of absent optional parts (rule calibrated on 600 cases of the unchanged tree before it was switched on)",
                 "names come from the pool that avoids Rust prelude / generated identifiers; a production kind is used once per grammar"],
    floor=dict(quick=50, thorough=500), wall_cap=dict(quick=1800, thorough=7200),
)
import subprocess  # noqa: E402
import sys  # noqa: E402
import time  # noqa: E402

RCOMP = os.path.join(os.path.dirname(os.path.dirname(os.path.abspath(__file__))), "target", "repo", "debug", "rcomp")


def build_rcomp(ctx):
    """rcomp from /repo's working tree, hook feature OFF, own target dir."""
    env = dict(ctx["env"], CARGO_TARGET_DIR=os.path.join(ctx["target"], "repo"))
    t = time.time()
    r = subprocess.run(["cargo", "build", "--offline", "--quiet", "-p", "rustemo-compiler", "--bin", "rcomp"], cwd="/repo", env=env, stdout=subprocess.PIPE, stderr=subprocess.STDOUT, text=True)
    ctx["log"]("[build rcomp %.1fs rc=%d]" % (time.time() - t, r.returncode))
    if r.returncode != 0:
        ctx["log"](r.stdout[-3000:])
        ctx["log"]("HARNESS-ERROR: rcomp does not build")
        sys.exit(2)


def with_env(jobs_fn, env):
    def f(ctx, *a):
        js = jobs_fn(ctx, *a)
        for j in js:
            j.setdefault("env", {}).update(env)
        return js
    return f


PLANS["C17"] = dict(
    pre=build_rcomp,
    jobs=with_env(sharded("c17", "C17", 192, 1920, max_s_quick=90, max_s_thorough=1200), {"VH_RCOMP": RCOMP}),
    replay=with_env(replay_with("c17", "C17"), {"VH_RCOMP": RCOMP}),
    rule="one evaluation = one (grammar, rcomp option vector): (a) 2-24 fresh rcomp processes (each with its own hash seeds) must write byte-identical parser and actions files, (b) the library API called with the equivalent settings "
         "(each option mapped to the setter its help text names, applied in rcomp's order) must write the same bytes, (c) every grammar is compiled twice in one process in opposite processing orders. "
         "Option vectors: every single option of rcomp on repository grammars, random combinations elsewhere. Grammars: repository .rustemo files, `ast` shapes, and rules whose production kinds repeat (K, K, K1, K1: name de-duplication). "
         "non-trivial = distinct (grammar, option vector) for which a parser was written",
    assumptions=["rcomp is built from /repo's working tree without the verif feature", "`--lexical-disamb-grammar-order=false` is only combined with GLR (the library refuses it for LR by panicking; that is outside C17)",
                 "-f is always passed so that actions are regenerated"],
    floor=dict(quick=30, thorough=400),
)
PLANS["C18"] = dict(
    jobs=sharded("c18", "C18", 1600, 24000, max_s_quick=90, max_s_thorough=1200), replay=replay_with("c18", "C18"),
    rule="one evaluation = one (grammar, edit history) pair: the actions file a forced generation wrote is edited 1-4 times (delete a random subset of items, delete single types while keeping their helpers, rewrite function bodies, "
         "insert user fn/struct/enum/const/static/use/impl/mod items, reorder everything; optionally regenerating in between and optionally changing the grammar) and then regenerated with force(false); parsed with syn, "
         "every pre-existing item must survive token for token and in order as a prefix, every appended item must be one a forced generation produces and must not duplicate an existing name, no fn/type is defined twice, "
         "every missing action function and every missing type of a grammar symbol is present afterwards, and a second regeneration is byte-identical. non-trivial = distinct (grammar, history) with preserved AND appended items",
    assumptions=["items are compared as token strings with the pretty-printer's trailing commas removed; non-doc comments are documented to be lost and are not compared",
                 "whether a deleted helper struct of a kept enum must reappear is not specified by the property and is not judged"],
    floor=dict(quick=100, thorough=1000),
)
TECH = {
    "C01": "runtime monitoring: real LR parser (table dumped through the hook) vs Earley membership on exhaustive short strings and random sentences of generated grammars",
    "C02": "runtime monitoring: tree validator (independent of the language) over Ok results under random disambiguation, partial_parse differential",
    "C03": "runtime monitoring: GLR forest APIs vs a memoised derivation counter/enumerator over token lattices",
    "C04": "runtime monitoring: dumped table vs reference canonical LR(1) collection through a simulation relation, complete per grammar",
    "C05": "runtime monitoring: cell-by-cell oracle of the documented resolution rule + precedence-climbing reference parser",
    "C06": "runtime monitoring: tokens acted on vs the documented lexical selection (oracle-side LR walk / survivor-path lattice), exhaustive short inputs",
    "C07": "runtime monitoring: differential LR vs GLR on conflict-free grammars (acceptance, solution count, trees with all spans)",
    "C08": "runtime monitoring: generated source compiled by rustc and interrogated completely, expectations from the table dump and the dynamic route",
    "C09": "runtime monitoring: structural comparison of the analysed grammar (hook dump) with the generator's abstract grammar + language of the sugar vs Earley on the documented expansion",
    "C10": "runtime monitoring: Debug rendering of default-builder ASTs from rustc-compiled generated parsers vs the content tokens of derivations with unique token texts",
    "C11": "runtime monitoring: rustc (cargo check, JSON diagnostics) over every accepted (grammar, settings) module, call-site signatures for listed findings",
    "C12": "runtime monitoring: error offset/line/column vs the Earley viable-prefix index over mutated and exhaustive inputs",
    "C13": "runtime monitoring: span/position invariant checker over every node of every LR tree and GLR forest tree",
    "C14": "runtime monitoring: round-trip (layout + token texts == input) and layout-insertion differential over seven layout families",
    "C15": "runtime monitoring: catch_unwind + logical step clock + abort detection over hostile inputs and hostile lexers, debug and release builds",
    "C16": "runtime monitoring: catch_unwind + abort detection over exemplar, generated and mutated grammar texts under the settings lattice",
    "C17": "runtime monitoring: byte comparison of files written by fresh rcomp processes, by the library API, in different orders and in directory mode",
    "C18": "runtime monitoring: syn item-list differ over random edit histories of the actions file and force(false) regeneration",
}
for _k, _v in TECH.items():
    PLANS[_k]["technique"] = _v
NOT_CLAIMED = {}
