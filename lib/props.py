"""Per-property plans: which workers to run, with what budgets, how to count."""
import os

NSH = 16


def sharded(worker, prop, n_quick, n_thorough, max_s_quick=150, max_s_thorough=1500, profile="dev", extra=None, nshards=NSH):
    def jobs(ctx):
        th = ctx["tier"] == "thorough"
        n = n_thorough if th else n_quick
        per = max(1, n // nshards)
        out = []
        for i in range(nshards):
            args = ["--seed", ctx["seed"], "--shard", i, "--nshards", nshards, "--tier", ctx["tier"], "--n", per,
                    "--max-s", max_s_thorough if th else max_s_quick]
            if extra:
                args += extra
            out.append(dict(worker=worker, prop=prop, args=args, profile=profile))
        return out
    return jobs


def replay_with(worker, prop, profile="dev"):
    def jobs(ctx, case, path):
        return [dict(worker=worker, prop=prop, args=["--replay", path, "--seed", ctx["seed"]], profile=profile)]
    return jobs


BNF_ASSUME = [
    "grammar texts are printed from the generator's own abstract grammar; terminals are distinct single-letter string literals, so the token string is the sentence",
    "random grammars: 1-5 non-terminals, 1-4 terminals, <=3 alternatives of <=4 symbols, EMPTY with p=0.15; reduced (productive, reachable); plus the literature corpus in harness/src/gens.rs",
    "inputs: every token string up to the length bound given in the samples (exhaustive per grammar), plus random longer sentences and their mutations",
    "parsers run through the dynamic route: real LRParser/GlrParser/StringLexer/TreeBuilder driven by the table dumped from the real pipeline (C08 ties the dump to the generated source)",
]

PLANS = {}

PLANS["C01"] = dict(
    jobs=sharded("diff", "C01", 8000, 120000), replay=replay_with("diff", "C01"),
    rule="one evaluation = one (in-scope grammar, input) pair parsed by the real LR parser under each in-scope table type and compared with Earley membership; "
         "scope is observed: the GLR-algorithm table of that type has no multi-action cell and the LR-mode table is cell-identical to it; "
         "non-trivial = distinct in-scope grammar (hash of text) with at least one accepted and one rejected input",
    assumptions=BNF_ASSUME, floor=dict(quick=40, thorough=400), exhaustive=False,
)
PLANS["C03"] = dict(
    jobs=sharded("diff", "C03", 8000, 120000), replay=replay_with("diff", "C03"),
    rule="one evaluation = one (grammar in C03 scope, input) pair: Ok iff derivation count > 0, solutions() == count, and each of get_tree(i)/iter()/(&f).into_iter()/into_iter() "
         "yields the multiset of derivation trees (normalised by dropping trailing empty children) exactly once; get_tree(n), get_tree(n+1), get_tree(n+17) yield None; "
         "non-trivial = distinct in-scope grammar with an input having >= 2 derivation trees (grammars with nullable symbols counted separately)",
    assumptions=BNF_ASSUME + ["scope computed by the oracle: acyclic and every nullable non-terminal has exactly one empty derivation; other grammars are counted as out of scope, not judged",
                              "tree enumeration compared only when the input has <= 400 trees; the count comparison always"],
    floor=dict(quick=30, thorough=300),
)
PLANS["C07"] = dict(
    jobs=sharded("diff", "C07", 8000, 120000), replay=replay_with("diff", "C07"),
    rule="one evaluation = one (conflict-free grammar, input) pair: LR (LALR and LALR_PAGER) and GLR (LALR_RN) accept the same inputs, GLR reports exactly 1 solution and its tree equals the LR tree "
         "(productions, token kinds/texts, all spans) modulo trailing empty children; non-trivial = distinct (grammar, accepted input of >= 2 tokens)",
    assumptions=BNF_ASSUME, floor=dict(quick=200, thorough=2000),
)
PLANS["C12"] = dict(
    jobs=sharded("diff", "C12", 8000, 120000), replay=replay_with("diff", "C12"),
    rule="one evaluation = one (grammar, input) pair; for a non-sentence the error offset must be the start of the first token at which the Earley item set becomes empty (end of input for a proper prefix), "
         "line/column must agree with that offset, the message must list >= 1 expected token; a sentence must never error; LR (both tables) and GLR; "
         "non-trivial = distinct (grammar, index of offending token, algorithm)",
    assumptions=BNF_ASSUME + ["grammars with a user Layout rule are not covered (see DESIGN.md C12)"],
    floor=dict(quick=200, thorough=2000),
)
PLANS["C13"] = dict(
    jobs=sharded("diff", "C13", 8000, 120000), replay=replay_with("diff", "C13"),
    rule="one evaluation = one (grammar, input) pair; every LR tree and every tree of every GLR forest (<= 64 trees) is walked: token value is the input slice at its span (pointer identity), token spans ordered, "
         "non-terminal span = [first child start, last child end], empty non-terminal zero-width between previous token end and next token start, line/column recomputed from byte offsets; "
         "non-trivial = distinct (grammar, algorithm, input) whose tree contains an empty non-terminal",
    assumptions=BNF_ASSUME + ["a quarter of the inputs are re-rendered with tabs, newlines, CRLF and leading/trailing whitespace"],
    floor=dict(quick=100, thorough=1000),
)
NOT_CLAIMED = {}
