//! Abstract grammar owned by the *generator* (never read back from rustemo),
//! its textual rendering in rustemo's grammar language, and the classic CFG
//! analyses used as scope predicates by the oracles.
use serde_json::{json, Value};

#[derive(Clone, Copy, Debug, PartialEq, Eq, Hash, PartialOrd, Ord)]
pub enum Sym {
    T(usize),
    N(usize),
}

#[derive(Clone, Debug, PartialEq, Eq)]
pub enum Rec {
    Lit(String),
    Re(String),
}

/// Associativity keyword as written. left==reduce, right==shift (documented synonyms).
#[derive(Clone, Copy, Debug, PartialEq, Eq)]
pub enum Assoc {
    Left,
    Right,
    Reduce,
    Shift,
}
impl Assoc {
    pub fn kw(&self) -> &'static str {
        match self {
            Assoc::Left => "left",
            Assoc::Right => "right",
            Assoc::Reduce => "reduce",
            Assoc::Shift => "shift",
        }
    }
    /// true = keeps the reduction (left/reduce), false = keeps the shift
    pub fn is_reduce(&self) -> bool {
        matches!(self, Assoc::Left | Assoc::Reduce)
    }
}

#[derive(Clone, Debug, Default, PartialEq)]
pub struct Meta {
    pub prio: Option<u32>,
    pub assoc: Option<Assoc>,
    pub nops: bool,
    pub nopse: bool,
    pub kind: Option<String>,
    pub user: Vec<(String, String)>, // key, literal value text (int or 'str')
}

impl Meta {
    pub fn is_empty(&self) -> bool {
        *self == Meta::default()
    }
    pub fn text(&self) -> String {
        let mut m: Vec<String> = vec![];
        if let Some(k) = &self.kind {
            m.push(k.clone());
        }
        if let Some(p) = self.prio {
            m.push(p.to_string());
        }
        if let Some(a) = self.assoc {
            m.push(a.kw().into());
        }
        if self.nops {
            m.push("nops".into());
        }
        if self.nopse {
            m.push("nopse".into());
        }
        for (k, v) in &self.user {
            m.push(format!("{}: {}", k, v));
        }
        if m.is_empty() {
            String::new()
        } else {
            format!(" {{{}}}", m.join(", "))
        }
    }
}

#[derive(Clone, Debug)]
pub struct Term {
    pub name: String,
    pub rec: Rec,
    pub meta: Meta,
}

#[derive(Clone, Debug, Default)]
pub struct Alt {
    pub syms: Vec<Sym>,
    pub meta: Meta,
}

#[derive(Clone, Debug)]
pub struct Rule {
    pub name: String,
    pub alts: Vec<Alt>,
    pub meta: Meta,
}

#[derive(Clone, Debug)]
pub struct AG {
    pub terms: Vec<Term>,
    pub rules: Vec<Rule>,
}

pub const INF: usize = usize::MAX / 4;

impl AG {
    pub fn strip_meta(&self) -> AG {
        let mut g = self.clone();
        for t in &mut g.terms {
            t.meta = Meta::default();
        }
        for r in &mut g.rules {
            r.meta = Meta::default();
            for a in &mut r.alts {
                a.meta = Meta::default();
            }
        }
        g
    }

    pub fn sym_name(&self, s: &Sym) -> &str {
        match s {
            Sym::T(t) => &self.terms[*t].name,
            Sym::N(n) => &self.rules[*n].name,
        }
    }

    /// Rendering in rustemo's grammar language.
    pub fn text(&self) -> String {
        let mut s = String::new();
        for r in &self.rules {
            s.push_str(&r.name);
            s.push_str(&r.meta.text());
            s.push_str(": ");
            let a: Vec<String> = r
                .alts
                .iter()
                .map(|alt| {
                    let body = if alt.syms.is_empty() {
                        "EMPTY".to_string()
                    } else {
                        alt.syms.iter().map(|x| self.sym_name(x).to_string()).collect::<Vec<_>>().join(" ")
                    };
                    format!("{}{}", body, alt.meta.text())
                })
                .collect();
            s.push_str(&a.join(" | "));
            s.push_str(";\n");
        }
        s.push_str("terminals\n");
        for t in &self.terms {
            let rec = match &t.rec {
                Rec::Lit(l) => format!("'{}'", l.replace('\\', "\\\\").replace('\'', "\\'")),
                Rec::Re(r) => format!("/{}/", r.replace('/', "\\/")),
            };
            s.push_str(&format!("{}: {}{};\n", t.name, rec, t.meta.text()));
        }
        s
    }

    /// Structured form used in replay files.
    pub fn to_json(&self) -> Value {
        let meta = |m: &Meta| json!({"prio": m.prio, "assoc": m.assoc.map(|a| a.kw()), "nops": m.nops, "nopse": m.nopse, "kind": m.kind, "user": m.user});
        json!({
            "terms": self.terms.iter().map(|t| json!({"name": t.name, "lit": match &t.rec { Rec::Lit(l) => Some(l.clone()), _ => None },
                                                      "re": match &t.rec { Rec::Re(l) => Some(l.clone()), _ => None }, "meta": meta(&t.meta)})).collect::<Vec<_>>(),
            "rules": self.rules.iter().map(|r| json!({"name": r.name, "meta": meta(&r.meta),
                "alts": r.alts.iter().map(|a| json!({"meta": meta(&a.meta), "syms": a.syms.iter().map(|s| match s { Sym::T(t) => json!({"t": t}), Sym::N(n) => json!({"n": n}) }).collect::<Vec<_>>()})).collect::<Vec<_>>()})).collect::<Vec<_>>(),
        })
    }

    pub fn from_json(v: &Value) -> AG {
        let meta = |m: &Value| Meta {
            prio: m["prio"].as_u64().map(|x| x as u32),
            assoc: m["assoc"].as_str().map(|a| match a {
                "left" => Assoc::Left,
                "right" => Assoc::Right,
                "reduce" => Assoc::Reduce,
                _ => Assoc::Shift,
            }),
            nops: m["nops"].as_bool().unwrap_or(false),
            nopse: m["nopse"].as_bool().unwrap_or(false),
            kind: m["kind"].as_str().map(|s| s.to_string()),
            user: m["user"].as_array().map(|a| a.iter().map(|kv| (kv[0].as_str().unwrap().to_string(), kv[1].as_str().unwrap().to_string())).collect()).unwrap_or_default(),
        };
        AG {
            terms: v["terms"]
                .as_array()
                .unwrap()
                .iter()
                .map(|t| Term {
                    name: t["name"].as_str().unwrap().into(),
                    rec: match t["lit"].as_str() {
                        Some(l) => Rec::Lit(l.into()),
                        None => Rec::Re(t["re"].as_str().unwrap().into()),
                    },
                    meta: meta(&t["meta"]),
                })
                .collect(),
            rules: v["rules"]
                .as_array()
                .unwrap()
                .iter()
                .map(|r| Rule {
                    name: r["name"].as_str().unwrap().into(),
                    meta: meta(&r["meta"]),
                    alts: r["alts"]
                        .as_array()
                        .unwrap()
                        .iter()
                        .map(|a| Alt {
                            meta: meta(&a["meta"]),
                            syms: a["syms"].as_array().unwrap().iter().map(|s| if let Some(t) = s["t"].as_u64() { Sym::T(t as usize) } else { Sym::N(s["n"].as_u64().unwrap() as usize) }).collect(),
                        })
                        .collect(),
                })
                .collect(),
        }
    }

    pub fn nullable(&self) -> Vec<bool> {
        let mut n = vec![false; self.rules.len()];
        loop {
            let mut ch = false;
            for (i, r) in self.rules.iter().enumerate() {
                if !n[i] && r.alts.iter().any(|a| a.syms.iter().all(|s| matches!(s, Sym::N(k) if n[*k]))) {
                    n[i] = true;
                    ch = true;
                }
            }
            if !ch {
                return n;
            }
        }
    }

    pub fn productive(&self) -> Vec<bool> {
        let mut n = vec![false; self.rules.len()];
        loop {
            let mut ch = false;
            for (i, r) in self.rules.iter().enumerate() {
                if !n[i]
                    && r.alts.iter().any(|a| {
                        a.syms.iter().all(|s| match s {
                            Sym::T(_) => true,
                            Sym::N(k) => n[*k],
                        })
                    })
                {
                    n[i] = true;
                    ch = true;
                }
            }
            if !ch {
                return n;
            }
        }
    }

    pub fn reachable(&self) -> Vec<bool> {
        let mut r = vec![false; self.rules.len()];
        let mut st = vec![0];
        r[0] = true;
        while let Some(i) = st.pop() {
            for a in &self.rules[i].alts {
                for s in &a.syms {
                    if let Sym::N(k) = s {
                        if !r[*k] {
                            r[*k] = true;
                            st.push(*k);
                        }
                    }
                }
            }
        }
        r
    }

    pub fn term_used(&self) -> Vec<bool> {
        let mut u = vec![false; self.terms.len()];
        for r in &self.rules {
            for a in &r.alts {
                for s in &a.syms {
                    if let Sym::T(t) = s {
                        u[*t] = true;
                    }
                }
            }
        }
        u
    }

    /// every rule reachable and productive, every terminal used
    pub fn reduced(&self) -> bool {
        self.productive().iter().all(|x| *x) && self.reachable().iter().all(|x| *x) && self.term_used().iter().all(|x| *x)
    }

    /// minimal number of tokens derivable from each rule (INF if unproductive)
    pub fn minlen(&self) -> Vec<usize> {
        let mut m = vec![INF; self.rules.len()];
        loop {
            let mut ch = false;
            for (i, r) in self.rules.iter().enumerate() {
                for a in &r.alts {
                    let l: usize = a
                        .syms
                        .iter()
                        .map(|s| match s {
                            Sym::T(_) => 1,
                            Sym::N(k) => m[*k],
                        })
                        .fold(0usize, |x, y| x.saturating_add(y).min(INF));
                    if l < m[i] {
                        m[i] = l;
                        ch = true;
                    }
                }
            }
            if !ch {
                return m;
            }
        }
    }

    /// A =>+ A possible for some A (through nullable context)?
    pub fn cyclic(&self) -> bool {
        let nl = self.nullable();
        let n = self.rules.len();
        let mut e = vec![vec![false; n]; n];
        for (i, r) in self.rules.iter().enumerate() {
            for a in &r.alts {
                for (p, s) in a.syms.iter().enumerate() {
                    if let Sym::N(k) = s {
                        let others = a.syms.iter().enumerate().all(|(q, o)| q == p || matches!(o, Sym::N(m) if nl[*m]));
                        if others {
                            e[i][*k] = true;
                        }
                    }
                }
            }
        }
        for k in 0..n {
            for i in 0..n {
                for j in 0..n {
                    if e[i][k] && e[k][j] {
                        e[i][j] = true;
                    }
                }
            }
        }
        (0..n).any(|i| e[i][i])
    }

    /// Number of distinct derivations of the empty string per rule (grammar must
    /// be acyclic). Saturates at 2.
    pub fn eps_derivations(&self) -> Vec<u64> {
        // memoised DFS; acyclic => terminates
        fn go(g: &AG, r: usize, memo: &mut Vec<Option<u64>>, nl: &[bool]) -> u64 {
            if !nl[r] {
                return 0;
            }
            if let Some(v) = memo[r] {
                return v;
            }
            let mut total = 0u64;
            for a in &g.rules[r].alts {
                // only alternatives made of nullable non-terminals derive empty
                if !a.syms.iter().all(|s| matches!(s, Sym::N(k) if nl[*k])) {
                    continue;
                }
                let mut prod = 1u64;
                for s in &a.syms {
                    if let Sym::N(k) = s {
                        prod = prod.saturating_mul(go(g, *k, memo, nl)).min(1 << 20);
                    }
                }
                total = (total + prod).min(1 << 20);
            }
            memo[r] = Some(total);
            total
        }
        let nl = self.nullable();
        let mut memo = vec![None; self.rules.len()];
        (0..self.rules.len()).map(|r| go(self, r, &mut memo, &nl)).collect()
    }

    /// scope of C03: acyclic and no ambiguous derivation of the empty string
    pub fn glr_scope(&self) -> bool {
        !self.cyclic() && self.eps_derivations().iter().all(|c| *c <= 1)
    }

    pub fn has_nullable(&self) -> bool {
        self.nullable().iter().any(|x| *x)
    }
}

/// FNV-1a, used to count *distinct* cases without keeping them.
pub fn fnv(s: &str) -> u64 {
    let mut h: u64 = 0xcbf29ce484222325;
    for b in s.as_bytes() {
        h ^= *b as u64;
        h = h.wrapping_mul(0x100000001b3);
    }
    h
}
