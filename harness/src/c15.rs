//! C15: parsing is total — any string and any lexer give Ok or Err, never a
//! panic or a hang (logical step budget), for LR and GLR.
use crate::ag::*;
use crate::c06::{all_inputs, alphabet, gen_lex};
use crate::c14::{gen_layout, grammar_text};
use crate::comp::*;
use crate::dynp::{self, guarded, Dyn, GlrCtx, LrCtx, Rec as DRec, St, Tk, MAXT};
use crate::gens::*;
use crate::rep::{Args, Rep};
use crate::rng::Rng;
use rustemo::{Context, Input, Lexer, Token, TokenRecognizer};
use serde_json::{json, Value};

/// Hostile user-supplied lexers (the book's own MyCustomLexer2 ignores the expected set as well).
/// mode 1: yields the first terminal (declaration order) that matches, whatever the state expects
/// mode 2: default behaviour, but now and then claims STOP although input remains
/// mode 3: cuts the next word and gives it a pseudo-random kind
pub struct Hostile {
    pub mode: u8,
    pub recs: &'static [DRec; MAXT],
    pub nterm: usize,
    pub seed: u64,
}

fn skip<'i, C: Context<'i, str, St, Tk>>(context: &mut C, input: &'i str) {
    let p = context.position().pos;
    let n: usize = input[p..].chars().take_while(|c| c.is_whitespace()).map(|c| c.len_utf8()).sum();
    if n > 0 {
        let ws = &input[p..p + n];
        context.set_position(ws.position_after(context.position()));
    }
}

impl<'i, C: Context<'i, str, St, Tk>> Lexer<'i, C, St, Tk> for Hostile {
    type Input = str;
    fn next_tokens(&self, context: &mut C, input: &'i str, expected: Vec<(Tk, bool)>) -> Box<dyn Iterator<Item = Token<'i, str, Tk>> + 'i> {
        dynp::tick();
        skip(context, input);
        let pos = context.position();
        let rest = &input[pos.pos..];
        let mk = |kind: usize, len: usize| {
            let value = &rest[..len];
            Token { kind: Tk(kind as u16), value, span: value.span_from(pos) }
        };
        // like StringLexer: the token value is whatever slice the recogniser returned
        let mkv = |kind: usize, value: &'i str| Token { kind: Tk(kind as u16), value, span: value.span_from(pos) };
        let h = (pos.pos as u64).wrapping_mul(0x9E3779B97F4A7C15) ^ self.seed;
        match self.mode {
            1 => {
                if rest.is_empty() {
                    return Box::new(std::iter::once(mk(0, 0)));
                }
                for k in 1..self.nterm {
                    if let Some(m) = self.recs[k].recognize(rest) {
                        if !m.is_empty() {
                            return Box::new(std::iter::once(mkv(k, m)));
                        }
                    }
                }
                Box::new(std::iter::empty())
            }
            2 => {
                if rest.is_empty() || h % 5 == 0 {
                    return Box::new(std::iter::once(mk(0, 0)));
                }
                for (k, _) in &expected {
                    if let Some(m) = self.recs[k.0 as usize].recognize(rest) {
                        if !m.is_empty() {
                            return Box::new(std::iter::once(mkv(k.0 as usize, m)));
                        }
                    }
                }
                Box::new(std::iter::empty())
            }
            _ => {
                if rest.is_empty() {
                    return Box::new(std::iter::once(mk((h % 2) as usize * (self.nterm - 1), 0)).filter(|t| t.kind.0 == 0));
                }
                // mode 3: tokens of 1-3 characters; mode 4: a word lexer, the token is the whole run up to the next whitespace
                let cap = if self.mode == 4 { usize::MAX } else { 1 + (h % 3) as usize };
                let len: usize = rest.chars().take_while(|c| !c.is_whitespace()).take(cap).map(|c| c.len_utf8()).sum();
                let kind = (h >> 7) as usize % self.nterm;
                if kind == 0 {
                    // STOP in the middle of the input
                    return Box::new(std::iter::once(mk(0, 0)));
                }
                Box::new(std::iter::once(mk(kind, len)))
            }
        }
    }
}

pub struct Target {
    pub name: String,
    pub text: String,
    pub spec: SetSpec,
    pub dy: Dyn,
    pub nterm: usize,
}

fn outcome_str<T>(r: &Result<rustemo::Result<T>, Option<String>>) -> &'static str {
    match r {
        Ok(Ok(_)) => "ok",
        Ok(Err(_)) => "err",
        Err(None) => "hang",
        Err(Some(_)) => "panic",
    }
}

pub fn judge(t: &Target, input: &str, lexer_mode: u8, rep: &mut Rep, curfile: &Option<String>) {
    let trace = std::env::var_os("RUSTEMO_TRACE").is_some();
    let case = || {
        if trace {
            json!({"grammar": t.text, "grammar_name": t.name, "settings": t.spec.to_json(), "input": input, "lexer": lexer_mode, "env": {"RUSTEMO_TRACE": "1"}})
        } else {
            json!({"grammar": t.text, "grammar_name": t.name, "settings": t.spec.to_json(), "input": input, "lexer": lexer_mode})
        }
    };
    if let Some(cf) = curfile {
        // survives an abort (stack overflow, OOM) of this process
        if input.len() < 4000 {
            let _ = std::fs::write(cf, case().to_string());
        } else {
            let _ = std::fs::write(cf, json!({"grammar": t.text, "grammar_name": t.name, "settings": t.spec.to_json(), "input_len": input.len(), "input_head": input.chars().take(200).collect::<String>(), "lexer": lexer_mode}).to_string());
        }
    }
    crate::rep::watchdog::set(|| if input.len() < 2000 { case().to_string() } else { json!({"grammar": t.text, "input_len": input.len()}).to_string() });
    let budget = 20_000 * (input.len() as u64 + 1);
    dynp::set_step_limit(budget);
    rep.count("evaluations", 1);
    let glr = t.spec.glr;
    let kind = match (glr, lexer_mode) {
        (false, 0) => {
            let r = guarded(|| t.dy.lr_parse(input).map(|_| ()));
            (outcome_str(&r), r.err().flatten())
        }
        (true, 0) => {
            let r = guarded(|| t.dy.glr_parse(input).map(|_| ()));
            (outcome_str(&r), r.err().flatten())
        }
        (false, m) => {
            let lx = Hostile { mode: m, recs: t.dy.recs, nterm: t.nterm, seed: fnv(input) };
            let r = guarded(|| t.dy.lr_parse_with::<Hostile>(input, lx).map(|_| ()));
            (outcome_str(&r), r.err().flatten())
        }
        (true, m) => {
            let lx = Hostile { mode: m, recs: t.dy.recs, nterm: t.nterm, seed: fnv(input) };
            let r = guarded(|| t.dy.glr_parse_with::<Hostile>(input, lx).map(|_| ()));
            (outcome_str(&r), r.err().flatten())
        }
    };
    let steps = dynp::steps();
    rep.max("max_steps", steps);
    rep.max("max_steps_per_byte_x1000", steps * 1000 / (input.len() as u64 + 1));
    rep.count(&format!("outcome:{}", kind.0), 1);
    rep.distinct("nontrivial", fnv(&format!("{}|{}|{}|{}", t.name, glr, lexer_mode, kind.0)) ^ fnv(&t.text));
    let _: (LrCtx, GlrCtx);
    let sigk = |k: &str| format!("{}:{}:{}:{}:{}", k, fnv(&t.text), fnv(&t.spec.to_json().to_string()), lexer_mode, fnv(input));
    let short = |s: &str| if s.len() > 300 { format!("{}… ({} bytes)", s.chars().take(120).collect::<String>(), s.len()) } else { s.to_string() };
    match kind.0 {
        "panic" => rep.violation("C15", &sigk("panic"), &format!("{} parser panicked on {:?} (lexer mode {}): {}", if glr { "GLR" } else { "LR" }, short(input), lexer_mode, kind.1.unwrap_or_default()), case()),
        "hang" => rep.violation("C15", &sigk("hang"), &format!("{} parser exceeded the step budget {} on {:?} (lexer mode {})", if glr { "GLR" } else { "LR" }, budget, short(input), lexer_mode), case()),
        _ => {}
    }
}

/// One parser object (default lexer) over the whole input list of a target: every call must return, whatever the
/// calls before it were (accepted, rejected, layout of other lengths, multi-byte text).
pub fn judge_history(t: &Target, inputs: &[String], rep: &mut Rep, curfile: &Option<String>) {
    if inputs.len() < 2 || std::env::var_os("RUSTEMO_TRACE").is_some() {
        return;
    }
    let glr = t.spec.glr;
    let hist: Vec<&str> = inputs.iter().filter(|i| i.len() < 400).take(40).map(|s| s.as_str()).collect();
    let case = |upto: usize| json!({"grammar": t.text, "grammar_name": t.name, "settings": t.spec.to_json(), "history": &hist[..upto], "lexer": 0});
    if let Some(cf) = curfile {
        let _ = std::fs::write(cf, case(hist.len()).to_string());
    }
    crate::rep::watchdog::set(|| case(hist.len()).to_string());
    let mut done = 0usize;
    let budget = |i: &str| 20_000 * (i.len() as u64 + 1);
    let r = guarded(|| {
        if glr {
            t.dy.glr_session(|parse| {
                for i in &hist {
                    crate::rep::watchdog::touch();
                    dynp::set_step_limit(budget(i));
                    let _ = parse(i);
                    done += 1;
                }
            })
        } else {
            t.dy.lr_session(|parse| {
                for i in &hist {
                    crate::rep::watchdog::touch();
                    dynp::set_step_limit(budget(i));
                    let _ = parse(i);
                    done += 1;
                }
            })
        }
    });
    rep.count("parser_object_histories", 1);
    rep.count("parser_object_parses", done as u64);
    let sig = |k: &str, upto: usize| format!("reuse-{}:{}:{}:{}", k, fnv(&t.text), fnv(&t.spec.to_json().to_string()), fnv(&hist[..upto].join("\u{1}")));
    match r {
        Ok(()) => {}
        Err(Some(m)) => rep.violation("C15", &sig("panic", done + 1), &format!("{} parser object that had parsed {} input(s) before panicked on {:?}: {}", if glr { "GLR" } else { "LR" }, done, hist[done.min(hist.len() - 1)].chars().take(80).collect::<String>(), m), case((done + 1).min(hist.len()))),
        // a hang inside a history: the single-input pass decides whether that input hangs on its own (listed findings)
        Err(None) => rep.count("history_step_budget_exceeded_not_judged_here", 1),
    }
}

/// Long inputs are described, not stored: `unit (sep unit)*reps tail`.
pub fn deep_input(gen: &Value) -> String {
    let (unit, sep, tail) = (gen["unit"].as_str().unwrap_or("a"), gen["sep"].as_str().unwrap_or(" "), gen["tail"].as_str().unwrap_or(""));
    let reps = gen["reps"].as_u64().unwrap_or(0) as usize;
    let mut s = String::with_capacity((unit.len() + sep.len()) * (reps + 1) + tail.len());
    s.push_str(unit);
    for _ in 0..reps {
        s.push_str(sep);
        s.push_str(unit);
    }
    s.push_str(tail);
    s
}

/// GLR parse of a long input on the small stack this worker was started with (VH_STACK_MB): parse() must return, i.e.
/// nothing inside it may recurse once per token. A forest that comes back is forgotten, not dropped: dropping it happens
/// after parse() and is not what C15 speaks about. The verdict "abort" is given by ./check from the .cur file.
pub fn judge_deep(t: &Target, gen: &Value, rep: &mut Rep, curfile: &Option<String>) {
    let input = deep_input(gen);
    let case = || json!({"grammar": t.text, "grammar_name": t.name, "settings": t.spec.to_json(), "input_gen": gen, "lexer": 0, "env": {"VH_C15_DEEP": "1", "VH_STACK_MB": std::env::var("VH_STACK_MB").unwrap_or_default()}});
    if let Some(cf) = curfile {
        let _ = std::fs::write(cf, case().to_string());
    }
    crate::rep::watchdog::set(|| case().to_string());
    let budget = 20_000 * (input.len() as u64 + 1);
    dynp::set_step_limit(budget);
    rep.count("evaluations", 1);
    rep.count("small_stack_long_input_parses", 1);
    let r = guarded(|| t.dy.glr_parse(&input).map(std::mem::forget));
    let kind = (outcome_str(&r), r.err().flatten());
    rep.max("max_small_stack_input_tokens", gen["reps"].as_u64().unwrap_or(0) + 1);
    rep.count(&format!("outcome:{}", kind.0), 1);
    rep.distinct("nontrivial", fnv(&format!("{}|deep|{}|{}", t.name, gen, kind.0)) ^ fnv(&t.text));
    let sigk = |k: &str| format!("{}:{}:{}:deep:{}", k, fnv(&t.text), fnv(&t.spec.to_json().to_string()), fnv(&gen.to_string()));
    match kind.0 {
        "panic" => rep.violation("C15", &sigk("panic"), &format!("GLR parser panicked on a {}-token input: {}", gen["reps"], kind.1.unwrap_or_default()), case()),
        "hang" => rep.violation("C15", &sigk("hang"), &format!("GLR parser exceeded the step budget {} on a {}-token input", budget, gen["reps"]), case()),
        _ => {}
    }
}

const NOISE: &[&str] = &[
    "", " ", "\n", "\r\n", "\t", "\u{0}", "\u{1}\u{7f}", "a\u{301}", "\u{301}", "𝄞", "\u{feff}", "\u{feff}a", "é", "aé", "éa", "a\u{a0}b", "\u{2028}", "\u{85}", "\u{200b}", "ÿ", "\u{d7ff}\u{e000}", "\u{10ffff}", "ab\u{0}c", "\\", "'", "\"", "/*", "//", "/* a", "*/",
];

pub fn inputs_for(g: Option<&AG>, lits: &[String], rng: &mut Rng, n: usize) -> Vec<String> {
    let mut out: Vec<String> = NOISE.iter().map(|s| s.to_string()).collect();
    let pick_lit = |rng: &mut Rng| if lits.is_empty() { "a".to_string() } else { lits[rng.below(lits.len())].clone() };
    // token text straddling / adjacent to multi-byte characters, control characters inside
    for _ in 0..n {
        let mut s = String::new();
        for _ in 0..rng.range(1, 8) {
            match rng.below(7) {
                0 => s.push_str(*rng.pick(NOISE)),
                1 => s.push(' '),
                2 => {
                    let l = pick_lit(rng);
                    // cut a literal in the middle of a char boundary-safe prefix
                    let cut = l.char_indices().map(|(i, _)| i).nth(rng.below(l.chars().count().max(1))).unwrap_or(0);
                    s.push_str(&l[..cut]);
                }
                _ => {
                    s.push_str(&pick_lit(rng));
                    if rng.chance(0.6) {
                        s.push(' ');
                    }
                }
            }
        }
        out.push(s);
    }
    // long words (token values / unrecognised runs of 40-200 bytes) mixing 1-4 byte characters
    for _ in 0..(n / 8).max(2) {
        let mut s = String::new();
        for _ in 0..rng.range(1, 3) {
            let target = rng.range(40, 200);
            let mut w = String::new();
            while w.len() < target {
                match rng.below(6) {
                    0 => w.push('é'),
                    1 => w.push('𝄞'),
                    2 => w.push('\u{20ac}'),
                    3 => w.push_str(&pick_lit(rng)),
                    _ => w.push((b'a' + rng.below(26) as u8) as char),
                }
            }
            s.push_str(&w);
            s.push(' ');
        }
        out.push(s);
    }
    if let Some(g) = g {
        for _ in 0..n / 2 {
            if let Some(mut w) = random_sentence(g, rng, 10) {
                if w.len() > 40 {
                    continue;
                }
                if rng.chance(0.6) && !w.is_empty() {
                    let i = rng.below(w.len());
                    match rng.below(3) {
                        0 => {
                            w.remove(i);
                        }
                        1 => w.insert(i, rng.below(g.terms.len())),
                        _ => w[i] = rng.below(g.terms.len()),
                    }
                }
                out.push(render_ws(g, &w, rng).0);
            }
        }
    }
    out
}

fn mk_target(name: &str, text: &str, spec: &SetSpec, wd: &Workdir, rep: &mut Rep) -> Option<Target> {
    let c = wd.compile(text, spec);
    match (&c.outcome, c.dump) {
        (Outcome::Ok, Some(d)) => match Dyn::new(&d, spec.dyn_cfg()) {
            Ok(dy) => {
                rep.count("parsers", 1);
                Some(Target { name: name.to_string(), text: text.to_string(), spec: spec.clone(), dy, nterm: d.grammar.terminals.len() })
            }
            Err(_) => {
                rep.count("parsers_not_buildable_dynamically", 1);
                None
            }
        },
        _ => {
            rep.count("grammars_not_compiled", 1);
            None
        }
    }
}

pub fn lits_of_dump_text(text: &str) -> Vec<String> {
    // string literals appearing in the grammar text: raw material for inputs
    let mut out = vec![];
    let b: Vec<char> = text.chars().collect();
    let mut i = 0;
    while i < b.len() {
        if b[i] == '\'' || b[i] == '"' {
            let q = b[i];
            let mut j = i + 1;
            let mut s = String::new();
            while j < b.len() && b[j] != q && b[j] != '\n' {
                s.push(b[j]);
                j += 1;
            }
            if j < b.len() && b[j] == q && !s.is_empty() && s.len() < 12 {
                out.push(s);
            }
            i = j + 1;
        } else {
            i += 1;
        }
    }
    out.extend(["1", "42", "3.5", "x", "foo", "\"s\"", "true", "false", "+", "-", "*", "/", "é-", "é+"].iter().map(|s| s.to_string()));
    out
}

pub fn repo_grammars() -> Vec<(String, String)> {
    let mut out = vec![];
    fn visit(dir: &std::path::Path, out: &mut Vec<(String, String)>) {
        let Ok(rd) = std::fs::read_dir(dir) else { return };
        let mut entries: Vec<_> = rd.flatten().map(|e| e.path()).collect();
        entries.sort();
        for p in entries {
            let name = p.file_name().unwrap().to_string_lossy().to_string();
            if p.is_dir() {
                if name == "target" || name.starts_with('.') {
                    continue;
                }
                visit(&p, out);
            } else if name.ends_with(".rustemo") {
                if let Ok(t) = std::fs::read_to_string(&p) {
                    out.push((p.to_string_lossy().to_string(), t));
                }
            }
        }
    }
    visit(std::path::Path::new("/repo"), &mut out);
    out
}

pub fn main(a: &Args) {
    let mut rep = Rep::new(a.out.as_deref());
    let wd = Workdir::new("c15");
    let mut rng = a.rng(15);
    let curfile = a.out.as_ref().map(|o| format!("{}.cur", o));
    if let Some(path) = &a.replay {
        let v: Value = serde_json::from_str(&std::fs::read_to_string(path).expect("read replay")).expect("json");
        let case = &v["case"];
        let spec = SetSpec::from_json(&case["settings"]);
        if let Some(t) = mk_target(case["grammar_name"].as_str().unwrap_or("replay"), case["grammar"].as_str().unwrap(), &spec, &wd, &mut rep) {
            if let Some(h) = case["history"].as_array() {
                let hist: Vec<String> = h.iter().map(|x| x.as_str().unwrap().to_string()).collect();
                judge_history(&t, &hist, &mut rep, &None);
            }
            if case["input_gen"].is_object() {
                judge_deep(&t, &case["input_gen"], &mut rep, &curfile);
                if let Some(cf) = &curfile {
                    let _ = std::fs::remove_file(cf);
                }
            }
            if let Some(input) = case["input"].as_str() {
                judge(&t, input, case["lexer"].as_u64().unwrap_or(0) as u8, &mut rep, &curfile);
                if let Some(cf) = &curfile {
                    let _ = std::fs::remove_file(cf);
                }
            }
        }
        rep.finish();
        return;
    }
    if std::env::var_os("VH_C15_DEEP").is_some() {
        // (f) GLR on long inputs with the stack of an ordinary thread (this worker runs with VH_STACK_MB=2): the graph
        // structured stack and the packed forest are as deep as the input is long
        let mut targets: Vec<(String, String)> = vec![("witness_list".into(), "A: A Tx | Tx;\nterminals\nTx: 'x';\n".into())];
        for gname in ["left_list", "right_list", "dragon_expr"] {
            targets.push((gname.to_string(), corpus().into_iter().find(|x| x.0 == gname).unwrap().1.text()));
        }
        let sizes: &[u64] = if a.thorough { &[20_000, 60_000, 200_000] } else { &[20_000, 60_000] };
        for (name, text) in targets {
            let spec = SetSpec { glr: true, ..Default::default() };
            let Some(t) = mk_target(&name, &text, &spec, &wd, &mut rep) else {
                rep.harness_error("deep-input grammar not compiled", json!({"grammar": text}));
                continue;
            };
            let (unit, sep) = match name.as_str() {
                "witness_list" => ("x", " "),
                "dragon_expr" => ("i", " p "),
                _ => ("a", " c "),
            };
            for &reps in sizes {
                // the right-recursive list keeps every item on the GSS until the end: quadratic in debug builds
                let reps = if name == "right_list" { reps.min(20_000) } else { reps };
                for tail in [" \u{301}", "", " ("] {
                    judge_deep(&t, &json!({"unit": unit, "sep": sep, "reps": reps, "tail": tail}), &mut rep, &curfile);
                }
            }
        }
        if let Some(cf) = &curfile {
            let _ = std::fs::remove_file(cf);
        }
        rep.finish();
        return;
    }
    let n = if a.thorough { a.n.unwrap_or(600) } else { a.n.unwrap_or(40) };
    let per = if a.thorough { 60 } else { 30 };
    let lexer_modes: &[u8] = &[0, 0, 1, 2, 3, 4];
    // (d) every grammar shipped in the repository, on one shard per algorithm
    if a.shard < 2 {
        for (path, text) in repo_grammars() {
            let glr = a.shard == 1;
            let spec = SetSpec { glr, ps: if glr { None } else { Some(true) }, ..Default::default() };
            let Some(t) = mk_target(&path, &text, &spec, &wd, &mut rep) else { continue };
            let lits = lits_of_dump_text(&text);
            for input in inputs_for(None, &lits, &mut rng, per) {
                for m in [0u8, 1, 3, 4] {
                    judge(&t, &input, m, &mut rep, &curfile);
                }
            }
        }
    }
    // (e) terminals whose regex matches arbitrarily long text (words, strings, comments-as-tokens) under the default
    // lexer: long multi-byte token values travel through shifts, error messages and tree builders
    if a.shard == 4 || a.shard == 5 {
        let glr = a.shard == 5;
        for (name, text) in [
            ("long_words", "S: Item+;\nItem: W | N;\nterminals\nW: /[^\\s\\d]\\S*/;\nN: /\\d+/;\n"),
            ("long_strings", "S: Item*;\nItem: Str | Id | '(' S ')';\nterminals\nStr: /\"[^\"]*\"/;\nId: /[^\\s\"()]+/;\nOB: '(';\nCB: ')';\n"),
            ("long_tail", "S: K Rest | K;\nterminals\nK: /[a-z]+/;\nRest: /=.*/;\n"),
        ] {
            let spec = SetSpec { glr, ps: if glr { None } else { Some(true) }, ..Default::default() };
            let Some(t) = mk_target(name, text, &spec, &wd, &mut rep) else {
                rep.harness_error("long-token grammar not compiled", json!({"grammar": text}));
                continue;
            };
            let lits = vec!["\"".to_string(), "(".to_string(), ")".to_string(), "=".to_string(), "7".to_string(), "k".to_string()];
            let mut ins = inputs_for(None, &lits, &mut rng, per * 8);
            let extra: Vec<String> = ins.iter().filter(|s| s.len() > 40).flat_map(|s| [format!("\"{}\"", s), format!("k ={}", s), format!("({} \"{}", s, s)]).collect();
            ins.extend(extra);
            for input in ins {
                for m in [0u8, 1, 4] {
                    judge(&t, &input, m, &mut rep, &curfile);
                }
            }
            rep.count("long_token_grammars", 1);
        }
    }
    // long inputs: deep stacks and long token runs
    if a.shard == 2 {
        for (gname, unit, sep, reps_lr, reps_glr) in [("left_list", "a", " c ", 20000usize, 1500usize), ("right_list", "a", " c ", 20000, 1500), ("palindromes_odd", "a", " ", 3000, 300), ("highly_ambiguous", "b", " ", 0, 14)] {
            let g = corpus().into_iter().find(|x| x.0 == gname).unwrap().1;
            for glr in [false, true] {
                let spec = SetSpec { glr, ps: if glr { None } else { Some(true) }, ..Default::default() };
                let Some(t) = mk_target(gname, &g.text(), &spec, &wd, &mut rep) else { continue };
                let reps = if glr { reps_glr } else { reps_lr };
                if reps == 0 {
                    continue;
                }
                let mut s = String::from(unit);
                for _ in 0..reps {
                    s.push_str(sep);
                    s.push_str(unit);
                }
                judge(&t, &s, 0, &mut rep, &curfile);
                let mut bad = s.clone();
                bad.push_str(" \u{301}");
                judge(&t, &bad, 0, &mut rep, &curfile);
            }
        }
        // 10^5 bytes of noise
        let g = corpus().into_iter().find(|x| x.0 == "dragon_expr").unwrap().1;
        for glr in [false, true] {
            let spec = SetSpec { glr, ps: if glr { None } else { Some(true) }, ..Default::default() };
            if let Some(t) = mk_target("dragon_expr", &g.text(), &spec, &wd, &mut rep) {
                judge(&t, &"é𝄞 ".repeat(12500), 0, &mut rep, &curfile);
                judge(&t, &" ".repeat(100000), 0, &mut rep, &curfile);
                judge(&t, &"i p ".repeat(25000), 0, &mut rep, &curfile);
            }
        }
    }
    let mut bases: Vec<(String, AG)> = if a.shard == 3 { corpus() } else { vec![] };
    let mut i = 0;
    while (i < n || !bases.is_empty()) && rep.elapsed() < a.max_s {
        let pick = i % 4;
        let (name, g) = if let Some(b) = bases.pop() {
            b
        } else {
            i += 1;
            if pick == 3 {
                // (b) lexically ambiguous terminal sets
                let lg = gen_lex(&mut rng);
                let glr = rng.chance(0.5) && lg.family == 0;
                let spec = SetSpec { glr, ms: rng.chance(0.5), lm: rng.chance(0.5), go: if glr { Some(rng.chance(0.3)) } else { None }, ..Default::default() };
                if let Some(t) = mk_target("lex", &lg.text(), &spec, &wd, &mut rep) {
                    let alpha = alphabet(&lg);
                    let mut ins = all_inputs(&alpha, 3);
                    ins.extend(NOISE.iter().map(|s| s.to_string()));
                    for input in ins {
                        judge(&t, &input, *rng.pick(lexer_modes), &mut rep, &curfile);
                    }
                }
                continue;
            }
            let g = gen_bnf(&mut rng, &BnfOpts { p_empty: 0.2, ..BnfOpts::default() });
            if !g.reduced() {
                continue;
            }
            ("random_bnf".to_string(), g)
        };
        let lits: Vec<String> = g.terms.iter().map(|t| if let Rec::Lit(l) = &t.rec { l.clone() } else { String::new() }).collect();
        let cyclic = g.cyclic();
        for glr in [false, true] {
            // fence of the listed findings lr-epsilon-loop / lr-reduction-cycle-cyclic-grammar: LR grammars carry no
            // meta-data, conflicts are resolved by prefer-shift only, and cyclic grammars are not compiled in LR mode
            if !glr && cyclic {
                rep.count("lr_skipped_cyclic_grammar_fence", 1);
                continue;
            }
            // fence of the listed finding glr-trace-cyclic-forest: with RUSTEMO_TRACE the parser logs
            // forest.solutions(), which recurses forever on the cyclic forest of a cyclic grammar
            if glr && cyclic && std::env::var_os("RUSTEMO_TRACE").is_some() {
                rep.count("glr_trace_skipped_cyclic_grammar_fence", 1);
                continue;
            }
            let family = if rng.chance(0.4) { rng.range(1, 7) as u8 } else { 0 };
            let text = if family > 0 { grammar_text(&g, family) } else { g.text() };
            let spec = SetSpec { glr, ps: if glr { None } else { Some(true) }, partial: rng.chance(0.2), ..Default::default() };
            let Some(t) = mk_target(&name, &text, &spec, &wd, &mut rep) else { continue };
            let mut ins = inputs_for(Some(&g), &lits, &mut rng, per);
            if family > 0 {
                for _ in 0..6 {
                    let mut s = gen_layout(&mut rng, family, false, false);
                    s.push_str(lits.first().map(|x| x.as_str()).unwrap_or("a"));
                    s.push_str(&gen_layout(&mut rng, family, false, true));
                    ins.push(s.clone());
                    // layout consumed, then nothing can be recognised
                    let mut t = s.clone();
                    t.push_str(" \u{1}? ");
                    ins.push(t);
                    let mut t = s.clone();
                    t.push_str(" ");
                    t.push_str(lits.last().map(|x| x.as_str()).unwrap_or("a"));
                    t.push_str(" \n§");
                    ins.push(t);
                    // unterminated comment
                    s.push_str("/* x");
                    ins.push(s);
                }
            }
            judge_history(&t, &ins, &mut rep, &curfile);
            for input in ins {
                judge(&t, &input, *rng.pick(lexer_modes), &mut rep, &curfile);
            }
        }
    }
    if let Some(cf) = &curfile {
        let _ = std::fs::remove_file(cf);
    }
    rep.sample(json!({"noise_inputs": NOISE.len(), "lexer_modes": "0 default, 1 ignores expected set, 2 early STOP, 3 random kind (1-3 chars), 4 random kind (whole words)"}));
    rep.finish();
}
