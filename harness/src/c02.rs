//! C02: every Ok LR parse is a derivation tree of the consumed input, whatever
//! disambiguation is in force; partial parsing never changes an accepted parse.
use crate::ag::*;
use crate::c05::random_meta;
use crate::comp::*;
use crate::dynp::{self, guarded, Dyn, LTree};
use crate::gens::*;
use crate::rep::{Args, Rep};
use crate::rng::Rng;
use crate::tree::*;
use rustemo::TreeNode;
use rustemo_compiler::verif::Dump;
use serde_json::{json, Value};

fn rng_allow_empty() -> bool {
    true
}

/// Validates one tree against the abstract grammar, independent of the language.
/// Returns the symbol the node stands for.
fn validate(t: &LTree, g: &AG, d: &Dump, m: &Map, errs: &mut Vec<String>) -> Option<Sym> {
    match t {
        TreeNode::TermNode { token, .. } => match m.term.get(token.kind.0 as usize).cloned().flatten() {
            Some(ti) => Some(Sym::T(ti)),
            None => {
                errs.push(format!("leaf with token kind {} that is no terminal of the grammar", token.kind.0));
                None
            }
        },
        TreeNode::NonTermNode { prod, children, .. } => {
            let Some(p) = d.grammar.productions.get(prod.prod as usize) else {
                errs.push(format!("node with unknown production {}", prod.prod));
                return None;
            };
            let Some(rule) = m.rule.get(p.nonterminal).cloned().flatten() else {
                errs.push(format!("node of non-terminal {} that is no rule of the grammar", d.grammar.nonterminals[p.nonterminal].name));
                return None;
            };
            let Some(alt) = g.rules[rule].alts.get(p.ntidx) else {
                errs.push(format!("rule {} has no alternative #{}", g.rules[rule].name, p.ntidx));
                return None;
            };
            let kids: Vec<Option<Sym>> = children.iter().map(|c| validate(c, g, d, m, errs)).collect();
            if kids.iter().all(|k| k.is_some()) {
                let kids: Vec<Sym> = kids.into_iter().flatten().collect();
                if kids != alt.syms {
                    errs.push(format!(
                        "node of {} alternative #{} has children [{}] but the production's right-hand side is [{}]",
                        g.rules[rule].name,
                        p.ntidx,
                        kids.iter().map(|s| g.sym_name(s)).collect::<Vec<_>>().join(" "),
                        alt.syms.iter().map(|s| g.sym_name(s)).collect::<Vec<_>>().join(" ")
                    ));
                }
            }
            Some(Sym::N(rule))
        }
    }
}

fn judge_tree(t: &LTree, g: &AG, d: &Dump, m: &Map, input: &str, toks: &[(usize, usize, usize)], partial: bool) -> Vec<String> {
    let mut errs = vec![];
    match validate(t, g, d, m, &mut errs) {
        Some(Sym::N(0)) => {}
        Some(s) => errs.push(format!("root stands for {} instead of the start symbol {}", g.sym_name(&s), g.rules[0].name)),
        None => {}
    }
    let mut lv = vec![];
    leaves(t, &mut lv);
    if !partial && lv.len() != toks.len() {
        errs.push(format!("tree has {} leaves but the input has {} tokens", lv.len(), toks.len()));
    }
    if lv.len() > toks.len() {
        errs.push(format!("tree has {} leaves, more than the {} tokens of the input", lv.len(), toks.len()));
    }
    for (i, (l, tk)) in lv.iter().zip(toks.iter()).enumerate() {
        let kind = m.term.get(l.kind.0 as usize).cloned().flatten();
        if kind != Some(tk.0) || l.span.start.pos != tk.1 || l.span.end.pos != tk.2 || l.value != &input[tk.1..tk.2] {
            errs.push(format!("leaf #{} is kind {:?} {:?} at [{}-{}] but token #{} of the input is kind {} {:?} at [{}-{}]", i, kind, l.value, l.span.start.pos, l.span.end.pos, i, tk.0, &input[tk.1..tk.2], tk.1, tk.2));
            break;
        }
    }
    errs
}

pub fn run_variant(g: &AG, spec: &SetSpec, wd: &Workdir, rep: &mut Rep, rng: &mut Rng, maxlen: usize, fixed: Option<(Vec<usize>, String, Vec<(usize, usize)>)>, family: u8, history: Option<Vec<String>>, fixed_foreign: Option<(usize, usize)>) {
    // family > 0: the grammar gets a user Layout rule (whitespace / comments) and inputs carry such layout
    let text = if family > 0 { crate::c14::grammar_text(g, family) } else { g.text() };
    let agj = g.to_json();
    let case0 = |extra: Value| json!({"grammar": text, "ag": agj, "settings": spec.to_json(), "family": family, "extra": extra});
    crate::rep::watchdog::set(|| case0(json!(null)).to_string());
    let c = wd.compile(&text, spec);
    rep.count("compilations", 1);
    let Some(d) = c.dump else {
        rep.count("rejected_before_table", 1);
        return;
    };
    if !c.outcome.is_ok() {
        rep.count("not_deterministic_or_panic", 1); // conflicts left (C05) or abort (C16)
        return;
    }
    // was any conflict resolved? compare with the unresolved table of the stripped grammar
    let raw = wd.compile(&g.strip_meta().text(), &SetSpec::raw(spec.table.unwrap_or(1)));
    let resolved = raw.dump.as_ref().map(|r| r.table.states.iter().zip(d.table.states.iter()).any(|(a, b)| a.actions.iter().zip(b.actions.iter()).any(|(x, y)| x.len() > y.len()))).unwrap_or(false);
    let m = Map::new(&d, g);
    let mk = |partial: bool| Dyn::new(&d, dynp::Cfg { partial, ..spec.dyn_cfg() });
    let (Ok(dy_off), Ok(dy_on)) = (mk(false), mk(true)) else {
        rep.harness_error("Dyn::new", case0(json!(null)));
        return;
    };
    let mut inputs: Vec<(Vec<usize>, String, Vec<(usize, usize, usize)>)> = vec![];
    if let Some((w, input, spans)) = fixed {
        let toks = w.iter().zip(spans.iter()).map(|(t, s)| (*t, s.0, s.1)).collect();
        inputs.push((w, input, toks));
    } else {
        let l = len_for(g.terms.len(), maxlen, 1200);
        let mut lay = |g: &AG, w: &[usize], rng: &mut Rng| {
            let mut r2 = rng.clone();
            let lead = crate::c14::gen_layout(&mut r2, family, true, false);
            let trail = crate::c14::gen_layout(&mut r2, family, true, true);
            let res = render(g, w, |_| crate::c14::gen_layout(&mut r2, family, rng_allow_empty(), false), &lead, &trail);
            *rng = r2;
            res
        };
        for w in all_strings(g.terms.len(), l) {
            let (input, toks) = if family > 0 { lay(g, &w, rng) } else if rng.chance(0.2) { render_ws(g, &w, rng) } else { render_plain(g, &w) };
            inputs.push((w, input, toks));
        }
        for _ in 0..8 {
            if let Some(mut w) = random_sentence(g, rng, l + 6) {
                if w.len() > 14 {
                    continue;
                }
                for variant in 0..3 {
                    if variant > 0 && !w.is_empty() {
                        let i = rng.below(w.len());
                        match rng.below(3) {
                            0 => {
                                w.remove(i);
                            }
                            1 => w.insert(i, rng.below(g.terms.len())),
                            _ => w[i] = rng.below(g.terms.len()),
                        }
                    }
                    let (input, toks) = if family > 0 { lay(g, &w, rng) } else { render_ws(g, &w, rng) };
                    inputs.push((w.clone(), input, toks));
                }
            }
        }
    }
    // a sample of the inputs again with a character that is neither whitespace nor part of any token
    let mut foreigns: Vec<Option<(usize, usize)>> = vec![None; inputs.len()];
    if fixed_foreign.is_some() {
        foreigns[0] = fixed_foreign;
    } else if history.is_none() {
        let n0 = inputs.len();
        for k in 0..n0 {
            if rng.chance(0.12) {
                let (w, input, toks) = &inputs[k];
                let ic = crate::c_diff::with_foreign(input, w, toks, rng, family);
                inputs.push((ic.w, ic.input, ic.toks));
                foreigns.push(ic.foreign);
            }
        }
    }
    let mut ok3 = false;
    let mut hangs = 0;
    let mut fresh: Vec<Option<Result<String, ()>>> = vec![None; inputs.len()];
    for (ix, (w, input, toks)) in inputs.iter().enumerate() {
        let foreign = foreigns[ix];
        let case = |extra: Value| json!({"grammar": text, "ag": agj, "settings": spec.to_json(), "family": family, "input": input, "tokens": w, "spans": toks.iter().map(|t| vec![t.1, t.2]).collect::<Vec<_>>(), "foreign": foreign.map(|f| vec![f.0, f.1]), "extra": extra});
        let sig = |k: &str| format!("{}:{}:{}:{}", k, fnv(&text), fnv(&spec.to_json().to_string()), fnv(input));
        crate::rep::watchdog::set(|| case(json!(null)).to_string());
        rep.count("evaluations", 1);
        // only the tokens in front of a foreign character can be consumed
        let toks: &[(usize, usize, usize)] = match foreign {
            Some((_, j)) => &toks[..j],
            None => &toks[..],
        };
        if foreign.is_some() {
            rep.count("inputs_with_foreign_character", 1);
        }
        let budget = 20_000 * (input.len() as u64 + 1);
        dynp::set_step_limit(budget);
        let off = guarded(|| dy_off.lr_parse(input));
        dynp::set_step_limit(budget);
        let on = guarded(|| dy_on.lr_parse(input));
        if matches!(off, Err(None)) || matches!(on, Err(None)) {
            // non-termination is C15's business; C02 only speaks about Ok results
            rep.count("step_budget_exceeded_not_judged", 1);
            hangs += 1;
            if hangs >= 3 {
                break;
            }
            continue;
        }
        let (Ok(off), Ok(on)) = (off, on) else {
            rep.violation("C02", &sig("panic"), "LR parser panicked", case(json!(null)));
            continue;
        };
        fresh[ix] = Some(off.as_ref().map(|t| dynp::shown(t)).map_err(|_| ()));
        if let (Ok(t), Some((at, _))) = (&off, foreign) {
            rep.violation("C02", &sig("foreign-ok"), &format!("Ok although the input has {:?} at offset {}, which is neither layout nor part of a token", input[at..].chars().take(4).collect::<String>(), at), case(json!({"partial": false, "tree": dynp::shown(t)})));
            continue;
        }
        if let Ok(t) = &off {
            rep.count("ok_full", 1);
            if toks.len() >= 3 {
                ok3 = true;
            }
            let errs = judge_tree(t, g, &d, &m, input, toks, false);
            if !errs.is_empty() {
                rep.violation("C02", &sig("tree"), &format!("Ok tree is not a derivation of the input: {}", errs.join("; ")), case(json!({"partial": false, "tree": dynp::shown(t)})));
            }
        }
        if let Ok(t) = &on {
            rep.count("ok_partial", 1);
            let errs = judge_tree(t, g, &d, &m, input, toks, true);
            if !errs.is_empty() {
                rep.violation("C02", &sig("tree-partial"), &format!("Ok tree (partial parse) is not a derivation of a token prefix of the input: {}", errs.join("; ")), case(json!({"partial": true, "tree": dynp::shown(t)})));
            }
            if off.is_err() {
                rep.count("ok_only_with_partial", 1);
            }
        }
        match (&off, &on) {
            (Ok(a), Ok(b)) => {
                if dynp::shown(a) != dynp::shown(b) {
                    rep.violation("C02", &sig("partial-differs"), "enabling partial parsing changes the tree of an accepted input", case(json!({"off": dynp::shown(a), "on": dynp::shown(b)})));
                }
            }
            (Ok(_), Err(e)) => rep.violation("C02", &sig("partial-rejects"), &format!("enabling partial parsing turns an accepted input into a rejected one: {}", e.to_pos_str().replace('\n', " ")), case(json!(null))),
            _ => {}
        }
    }
    // One parser object over a whole history of inputs (accepted and rejected ones interleaved): each Ok tree must
    // still be a derivation of *its* input.
    if hangs == 0 {
        let hist: Vec<(&str, Option<usize>)> = match &history {
            Some(h) => {
                let mut v: Vec<(&str, Option<usize>)> = h.iter().map(|s| (s.as_str(), None)).collect();
                if let Some(l) = v.last_mut() {
                    l.1 = Some(0);
                }
                v
            }
            None => {
                let mut order: Vec<usize> = (0..inputs.len()).collect();
                for i in (1..order.len()).rev() {
                    order.swap(i, rng.below(i + 1));
                }
                order.truncate(60);
                order.into_iter().map(|i| (inputs[i].1.as_str(), Some(i))).collect()
            }
        };
        let mut done: Vec<&str> = vec![];
        let mut after_err = false;
        let r = guarded(|| {
            dy_off.lr_session(|parse| {
                for (input, ix) in &hist {
                    dynp::set_step_limit(20_000 * (input.len() as u64 + 1));
                    let r = parse(input);
                    done.push(input);
                    match (&r, ix) {
                        (Ok(t), Some(ix)) => {
                            let (w, _, toks) = &inputs[*ix];
                            rep.count("reuse_ok", 1);
                            if after_err {
                                rep.count("reuse_ok_after_rejected_input", 1);
                            }
                            let mut errs = judge_tree(t, g, &d, &m, input, toks, false);
                            if errs.is_empty() {
                                if let Some(Ok(f)) = &fresh[*ix] {
                                    if *f != dynp::shown(t) {
                                        errs.push("tree differs from the one a fresh parser object builds for the same input".into());
                                    }
                                }
                            }
                            if !errs.is_empty() {
                                let case = json!({"grammar": text, "ag": agj, "settings": spec.to_json(), "family": family, "input": input, "tokens": w, "spans": toks.iter().map(|t| vec![t.1, t.2]).collect::<Vec<_>>(), "history": done, "extra": {"tree": dynp::shown(t)}});
                                let sig = format!("reuse-tree:{}:{}:{}", fnv(&text), fnv(&spec.to_json().to_string()), fnv(&done.join("\u{1}")));
                                rep.violation("C02", &sig, &format!("Ok tree of a reused parser object (input {} of its history) is not a derivation of the input: {}", done.len(), errs.join("; ")), case);
                            }
                        }
                        (Err(_), _) => after_err = true,
                        _ => {}
                    }
                }
            })
        });
        match r {
            Ok(()) => {}
            Err(None) => rep.count("step_budget_exceeded_not_judged", 1),
            Err(Some(msg)) => {
                let case = json!({"grammar": text, "ag": agj, "settings": spec.to_json(), "family": family, "history": done, "extra": {"panic": msg}});
                rep.violation("C02", &format!("reuse-panic:{}:{}", fnv(&text), fnv(&spec.to_json().to_string())), "LR parser panicked on a reused parser object", case);
            }
        }
    }
    if resolved && ok3 {
        rep.distinct("nontrivial", fnv(&format!("{}|{}", text, spec.to_json())));
    }
    if resolved {
        rep.count("variants_with_resolved_conflict", 1);
    }
    rep.sample(json!({"grammar": text, "settings": spec.to_json(), "inputs": inputs.len(), "conflict_resolved": resolved}));
}

pub fn main(a: &Args) {
    let mut rep = Rep::new(a.out.as_deref());
    let wd = Workdir::new("c02");
    let mut rng = a.rng(2);
    if let Some(path) = &a.replay {
        let v: Value = serde_json::from_str(&std::fs::read_to_string(path).expect("read replay")).expect("json");
        let case = &v["case"];
        let g = AG::from_json(&case["ag"]);
        let spec = SetSpec::from_json(&case["settings"]);
        let fixed = case["input"].as_str().map(|i| {
            (
                case["tokens"].as_array().unwrap().iter().map(|x| x.as_u64().unwrap() as usize).collect(),
                i.to_string(),
                case["spans"].as_array().unwrap().iter().map(|x| (x[0].as_u64().unwrap() as usize, x[1].as_u64().unwrap() as usize)).collect(),
            )
        });
        let history = case["history"].as_array().map(|h| h.iter().map(|x| x.as_str().unwrap().to_string()).collect());
        let ff = case["foreign"].as_array().map(|f| (f[0].as_u64().unwrap() as usize, f[1].as_u64().unwrap() as usize));
        run_variant(&g, &spec, &wd, &mut rep, &mut rng, 5, fixed, case["family"].as_u64().unwrap_or(0) as u8, history, ff);
        rep.finish();
        return;
    }
    let (n, maxlen) = if a.thorough { (a.n.unwrap_or(2000), 6) } else { (a.n.unwrap_or(100), 5) };
    let mut bases: Vec<AG> = vec![];
    if a.shard == 0 {
        bases.extend(corpus().into_iter().map(|x| x.1));
    }
    let mut i = 0;
    while (i < n || !bases.is_empty()) && rep.elapsed() < a.max_s {
        let base = if let Some(b) = bases.pop() {
            b
        } else {
            i += 1;
            let o = if i % 5 == 1 { BnfOpts { max_nt: 5, max_t: 4, max_alts: 4, max_len: 4, p_empty: 0.2 } } else { BnfOpts { p_empty: 0.2, ..BnfOpts::default() } };
            let g = if i % 9 == 4 {
                rep.count("lists_family_grammars", 1);
                gen_lists(&mut rng)
            } else if i % 40 == 7 {
                rep.count("big_family_grammars", 1);
                gen_big(&mut rng)
            } else {
                gen_bnf(&mut rng, &o)
            };
            if !g.reduced() {
                rep.count("grammars_not_reduced", 1);
                continue;
            }
            g
        };
        rep.count("base_grammars", 1);
        for _ in 0..4 {
            let ann = random_meta(&base, &mut rng);
            let spec = SetSpec { ps: Some(rng.chance(0.6)), pse: Some(rng.chance(0.6)), ..SetSpec::lr(rng.below(2) as u8) };
            let family = if rng.chance(0.35) { rng.range(1, 7) as u8 } else { 0 };
            if family > 0 {
                rep.count("variants_with_layout_rule", 1);
            }
            run_variant(&ann, &spec, &wd, &mut rep, &mut rng, maxlen, None, family, None, None);
        }
    }
    rep.finish();
}
