//! Generated route: the real compiler writes parsers (and actions) into a
//! scratch cargo workspace; per-module checking code is emitted next to them;
//! the python driver builds and runs the workspace and compares the output
//! lines with the expectations recorded here (from the dump / the oracles).
use crate::comp::*;
use rustemo_compiler::verif::{Dump, VAction};
use serde_json::{json, Value};
use std::fmt::Write as _;
use std::path::{Path, PathBuf};

pub fn pascal(s: &str) -> String {
    // file names used here are `g<digits>`: Pascal case = capitalised first letter
    let mut c = s.chars();
    match c.next() {
        Some(f) => f.to_uppercase().collect::<String>() + c.as_str(),
        None => String::new(),
    }
}

pub struct Names {
    pub states: Vec<String>,
    pub tokens: Vec<String>,
    pub nonterms: Vec<String>,
    /// generated ProdKind variants in enum order, with the dump production index of each
    pub prods: Vec<(String, usize)>,
}

/// The identifiers the generator derives (generator/mod.rs: state_kind_ident, prod_kind, ...).
pub fn names(d: &Dump) -> Names {
    let g = &d.grammar;
    let nterm = g.terminals.len();
    let sym_name = |s: usize| if s < nterm { g.terminals[s].name.clone() } else { g.nonterminals[s - nterm].name.clone() };
    let aug = g.augmented_index - nterm;
    let augl = g.augmented_layout_index.map(|x| x - nterm);
    Names {
        states: d.table.states.iter().enumerate().map(|(i, s)| format!("{}S{}", sym_name(s.symbol), i)).collect(),
        tokens: g.terminals.iter().map(|t| t.name.clone()).collect(),
        nonterms: g.nonterminals.iter().map(|n| n.name.clone()).collect(),
        prods: g
            .productions
            .iter()
            .enumerate()
            .filter(|(_, p)| p.nonterminal != aug && Some(p.nonterminal) != augl)
            .map(|(i, p)| (format!("{}{}", g.nonterminals[p.nonterminal].name, p.kind.clone().unwrap_or(format!("P{}", p.ntidx + 1))), i))
            .collect(),
    }
}

pub struct Module {
    pub name: String, // g<N>
    pub check_fn: String,
    pub expected: Vec<String>,
    pub info: Value,
}

pub struct Crate {
    pub dir: PathBuf,
    pub modules: Vec<Module>,
    pub extra_mods: Vec<String>,
}

impl Crate {
    pub fn new(dir: &Path) -> Crate {
        let _ = std::fs::remove_dir_all(dir);
        std::fs::create_dir_all(dir.join("src")).expect("scratch crate dir");
        Crate { dir: dir.to_path_buf(), modules: vec![], extra_mods: vec![] }
    }
    pub fn src(&self) -> PathBuf {
        self.dir.join("src")
    }
    /// Writes Cargo.toml, main.rs and meta.json.
    pub fn finish(&self, crate_name: &str) {
        let mut main = String::from("#![allow(warnings)]\n");
        for m in &self.extra_mods {
            writeln!(main, "mod {};", m).unwrap();
        }
        for m in &self.modules {
            writeln!(main, "mod {};", m.name).unwrap();
        }
        main.push_str("use std::fmt::Write as _;\nfn main() {\n    std::panic::set_hook(Box::new(|_| {}));\n");
        for m in &self.modules {
            writeln!(main, "    println!(\"@MODULE {}\");\n    check_{}();\n    println!(\"@END {}\");", m.name, m.name, m.name).unwrap();
        }
        main.push_str("}\n");
        for m in &self.modules {
            main.push_str(&m.check_fn);
        }
        std::fs::write(self.src().join("main.rs"), main).unwrap();
        std::fs::write(
            self.dir.join("Cargo.toml"),
            format!("[package]\nname = \"{}\"\nversion = \"0.0.0\"\nedition = \"2021\"\npublish = false\n\n[dependencies]\nrustemo = {{ path = \"/repo/rustemo\" }}\n", crate_name),
        )
        .unwrap();
        let meta = json!({"modules": self.modules.iter().map(|m| json!({"name": m.name, "expected": m.expected, "info": m.info})).collect::<Vec<_>>()});
        std::fs::write(self.dir.join("meta.json"), meta.to_string()).unwrap();
    }
}

fn act_str(a: &VAction, prod_pos: &dyn Fn(usize) -> String) -> String {
    match a {
        VAction::Shift(s) => format!("S{}", s),
        VAction::Reduce(p, l) => format!("R{},{}", prod_pos(*p), l),
        VAction::Accept => "ACC".into(),
    }
}

/// Code (and the expected output lines) that interrogates the generated ParserDefinition completely.
pub fn definition_check(m: &str, d: &Dump, spec: &SetSpec) -> (String, Vec<String>) {
    let n = names(d);
    let def = format!("{}ParserDefinition", pascal(m));
    let mut code = String::new();
    let mut exp = vec![];
    writeln!(code, "    let states: &[State] = &[{}];", n.states.iter().map(|s| format!("State::{}", s)).collect::<Vec<_>>().join(", ")).unwrap();
    writeln!(code, "    let tokens: &[TokenKind] = &[{}];", n.tokens.iter().map(|s| format!("TokenKind::{}", s)).collect::<Vec<_>>().join(", ")).unwrap();
    writeln!(code, "    let nts: &[NonTermKind] = &[{}];", n.nonterms.iter().map(|s| format!("NonTermKind::{}", s)).collect::<Vec<_>>().join(", ")).unwrap();
    writeln!(code, "    let prods: &[ProdKind] = &[{}];", n.prods.iter().map(|s| format!("ProdKind::{}", s.0)).collect::<Vec<_>>().join(", ")).unwrap();
    code.push_str(
        r#"    println!("SV {}", states.iter().map(|s| (*s as usize).to_string()).collect::<Vec<_>>().join(","));
    println!("TV {}", tokens.iter().map(|s| (*s as usize).to_string()).collect::<Vec<_>>().join(","));
    println!("NV {}", nts.iter().map(|s| (*s as usize).to_string()).collect::<Vec<_>>().join(","));
    println!("PV {}", prods.iter().map(|s| (*s as usize).to_string()).collect::<Vec<_>>().join(","));
    println!("PN {}", prods.iter().map(|p| (NonTermKind::from(*p) as usize).to_string()).collect::<Vec<_>>().join(","));
    for s in states {
        for t in tokens {
            let a = PARSER_DEFINITION.actions(*s, *t);
            println!("A {} {} {}", *s as usize, *t as usize, a.iter().map(|x| match x {
                Action::Shift(s) => format!("S{}", *s as usize),
                Action::Reduce(p, l) => format!("R{},{}", *p as usize, l),
                Action::Accept => "ACC".to_string(),
                Action::Error => "ERR".to_string(),
            }).collect::<Vec<_>>().join("|"));
        }
    }
    for s in states {
        for n in nts {
            let (s, n) = (*s, *n);
            let r = std::panic::catch_unwind(move || PARSER_DEFINITION.goto(s, n));
            println!("G {} {} {}", s as usize, n as usize, match r { Ok(x) => (x as usize).to_string(), Err(_) => "PANIC".to_string() });
        }
    }
    for s in states {
        println!("E {} {}", *s as usize, PARSER_DEFINITION.expected_token_kinds(*s).iter().map(|(t, f)| format!("{}:{}", *t as usize, f)).collect::<Vec<_>>().join(","));
    }
    println!("L {:?}", <State as rustemo::State>::default_layout().map(|s| s as usize));
"#,
    );
    writeln!(code, "    println!(\"LM {{}} GO {{}}\", <{def} as ParserDefinition<State, ProdKind, TokenKind, NonTermKind>>::longest_match(), <{def} as ParserDefinition<State, ProdKind, TokenKind, NonTermKind>>::grammar_order());").unwrap();
    // expectations from the dump
    let seq = |k: usize| (0..k).map(|i| i.to_string()).collect::<Vec<_>>().join(",");
    exp.push(format!("SV {}", seq(n.states.len())));
    exp.push(format!("TV {}", seq(n.tokens.len())));
    exp.push(format!("NV {}", seq(n.nonterms.len())));
    exp.push(format!("PV {}", seq(n.prods.len())));
    exp.push(format!("PN {}", n.prods.iter().map(|(_, pi)| d.grammar.productions[*pi].nonterminal.to_string()).collect::<Vec<_>>().join(",")));
    let prod_pos = |p: usize| n.prods.iter().position(|x| x.1 == p).map(|x| x.to_string()).unwrap_or("?".into());
    for (si, s) in d.table.states.iter().enumerate() {
        for (ti, acts) in s.actions.iter().enumerate() {
            exp.push(format!("A {} {} {}", si, ti, acts.iter().map(|a| act_str(a, &prod_pos)).collect::<Vec<_>>().join("|")));
        }
    }
    for (si, s) in d.table.states.iter().enumerate() {
        for (ni, g) in s.gotos.iter().enumerate() {
            exp.push(format!("G {} {} {}", si, ni, g.map(|x| x.to_string()).unwrap_or("PANIC".into())));
        }
    }
    for (si, s) in d.table.states.iter().enumerate() {
        exp.push(format!("E {} {}", si, s.sorted_terminals.iter().map(|(t, f)| format!("{}:{}", t, f)).collect::<Vec<_>>().join(",")));
    }
    exp.push(format!("L {:?}", d.table.layout_state));
    exp.push(format!("LM {} GO {}", spec.lm, spec.grammar_order()));
    (code, exp)
}

/// Code that parses the inputs with the generated parser (generic builder) and renders
/// results exactly like dynp::shown / an error offset.
pub fn parse_check(m: &str, d: &Dump, spec: &SetSpec, inputs: &[String]) -> String {
    let n = names(d);
    let parser = format!("{}Parser", pascal(m));
    let mut code = String::new();
    // ProdKind position -> dump production index
    writeln!(code, "    let pidx: &[usize] = &[{}];", n.prods.iter().map(|p| p.1.to_string()).collect::<Vec<_>>().join(", ")).unwrap();
    code.push_str(
        r#"    // `input`: the buffer that was parsed. A token value that is not the very slice of that buffer at the token's span
    // (C13: pointer identity, which route D shows for the runtime) is marked in the rendering.
    fn show(t: &TreeNode<str, ProdKind, TokenKind>, pidx: &[usize], input: &str, out: &mut String) {
        match t {
            TreeNode::TermNode { token, .. } => {
                let (s, e) = (token.span.start.pos, token.span.end.pos);
                let same = s <= e && e <= input.len() && input.is_char_boundary(s) && input.is_char_boundary(e)
                    && std::ptr::eq(token.value.as_ptr(), input[s..e].as_ptr()) && token.value.len() == e - s;
                write!(out, "t{}[{}-{}]{:?}{} ", token.kind as usize, s, e, token.value, if same { "" } else { "!not-the-input-slice" }).unwrap();
            }
            TreeNode::NonTermNode { prod, span, children, .. } => {
                write!(out, "(p{}[{}-{}] ", pidx[*prod as usize], span.start.pos, span.end.pos).unwrap();
                for c in children { show(c, pidx, input, out); }
                out.push_str(") ");
            }
        }
    }
    fn errpos(e: &rustemo::Error) -> String {
        match e { rustemo::Error::ParseError(pe) => format!("ERR {:?}", pe.span.map(|s| s.start.pos)), _ => "ERR io".to_string() }
    }
"#,
    );
    writeln!(code, "    let inputs: &[&str] = &[{}];", inputs.iter().map(|i| format!("{:?}", i)).collect::<Vec<_>>().join(", ")).unwrap();
    if spec.glr {
        writeln!(
            code,
            r#"    for (i, input) in inputs.iter().enumerate() {{
        let r = std::panic::catch_unwind(|| match {parser}::new().parse(input) {{
            Ok(f) => {{
                let n = f.solutions();
                let mut s = format!("OK {{}}", n);
                if n <= 12 {{
                    for t in f.iter() {{
                        let mut b = TreeBuilder::new();
                        let tn = t.build::<TreeBuilder<'_, str, ProdKind, TokenKind>, State>(&mut b);
                        s.push_str(" # ");
                        show(&tn, pidx, input, &mut s);
                    }}
                }}
                s
            }}
            Err(e) => errpos(&e),
        }});
        println!("P {{}} {{}}", i, r.unwrap_or("PANIC".to_string()));
    }}"#
        )
        .unwrap();
    } else {
        writeln!(
            code,
            r#"    for (i, input) in inputs.iter().enumerate() {{
        let r = std::panic::catch_unwind(|| match {parser}::new().parse(input) {{
            Ok(t) => {{ let mut s = String::from("OK # "); show(&t, pidx, input, &mut s); s }}
            Err(e) => errpos(&e),
        }});
        println!("P {{}} {{}}", i, r.unwrap_or("PANIC".to_string()));
    }}"#
        )
        .unwrap();
    }
    code
}

pub fn wrap_check_fn(m: &str, body: &str) -> String {
    format!("fn check_{m}() {{\n    use {m}::*;\n    use rustemo::{{Parser, ParserDefinition, TreeNode, TreeBuilder, Action}};\n{body}}}\n")
}

/// Compile `text` with `spec` so that the generated files land in `src_dir` as <m>.rs (+ <m>_actions.rs).
pub fn generate_into(src_dir: &Path, m: &str, text: &str, spec: &SetSpec) -> Compiled {
    let gpath = src_dir.join(format!("{}.rustemo", m));
    std::fs::write(&gpath, text).expect("write grammar");
    let s = spec.settings(src_dir);
    let _ = rustemo_compiler::verif::take_dump();
    let r = crate::dynp::guarded(|| s.process_grammar(&gpath));
    let dump = rustemo_compiler::verif::take_dump();
    let outcome = match r {
        Ok(Ok(())) => Outcome::Ok,
        Ok(Err(e)) => Outcome::Err(e.to_string()),
        Err(Some(m)) => Outcome::Panic(m),
        Err(None) => Outcome::Panic("step limit".into()),
    };
    Compiled { outcome, dump }
}
