//! C08 (generation side): for each grammar x {Functions, Arrays} x {LR, GLR}
//! the real compiler writes a parser into a scratch crate; checking code
//! emitted from the dump interrogates the generated ParserDefinition completely
//! and parses inputs; expectations = the dump and the dynamic route.
use crate::ag::*;
use crate::c06::{all_inputs, alphabet, gen_lex};
use crate::c14::{gen_layout, grammar_text};
use crate::comp::*;
use crate::dynp::{self, guarded, Dyn, LTree};
use crate::gens::*;
use crate::groute::*;
use crate::rep::{Args, Rep};
use crate::rng::Rng;
use rustemo::TreeBuilder;
use serde_json::{json, Value};
use std::path::Path;

/// Result of the dynamic route rendered like the generated checking code does.
fn dyn_result(dy: &Dyn, glr: bool, input: &str) -> String {
    dynp::set_step_limit(5_000_000);
    let errpos = |e: &rustemo::Error| match e {
        rustemo::Error::ParseError(pe) => format!("ERR {:?}", pe.span.map(|s| s.start.pos)),
        _ => "ERR io".to_string(),
    };
    if glr {
        match guarded(|| {
            dy.glr_parse(input).map(|f| {
                let n = f.solutions();
                let mut s = format!("OK {}", n);
                if n <= 12 {
                    for t in f.iter() {
                        let mut b = TreeBuilder::new();
                        let tn: LTree = t.build::<_, dynp::St>(&mut b);
                        s.push_str(" # ");
                        dynp::show(&tn, &mut s);
                    }
                }
                s
            })
        }) {
            Ok(Ok(s)) => s,
            Ok(Err(e)) => errpos(&e),
            Err(_) => "PANIC".into(),
        }
    } else {
        match guarded(|| dy.lr_parse(input).map(|t| format!("OK # {}", dynp::shown(&t)))) {
            Ok(Ok(s)) => s,
            Ok(Err(e)) => errpos(&e),
            Err(_) => "PANIC".into(),
        }
    }
}

pub struct Case {
    pub origin: String,
    pub text: String,
    pub inputs: Vec<String>,
    pub lex: (bool, bool), // ms, lm
    pub fancy: bool,
    /// replay: the table type and whitespace setting recorded with the case (None = choose as in a normal run)
    pub fixed: Option<(Option<u8>, bool)>,
}

pub fn emit_case(krate: &mut Crate, case: &Case, rep: &mut Rep) {
    // every generated parser also meets hostile text (multi-byte, control characters, long words, cut literals): the
    // generated recognisers and lexer definition must answer like route D, in particular never panic
    let mut case = Case { origin: case.origin.clone(), text: case.text.clone(), inputs: case.inputs.clone(), lex: case.lex, fancy: case.fancy, fixed: case.fixed };
    if case.fixed.is_none() {
        let mut r = crate::rng::Rng::new(crate::ag::fnv(&case.text));
        let lits = crate::c15::lits_of_dump_text(&case.text);
        let mut noise = crate::c15::inputs_for(None, &lits, &mut r, 8);
        r.shuffle(&mut noise);
        noise.truncate(14);
        case.inputs.extend(noise);
    }
    // a quarter of the cases with skip_ws(false): whitespace is significant, also at the very end (STOP)
    let no_skip = match case.fixed {
        Some((_, skip)) => !skip,
        None => crate::ag::fnv(&case.text) % 4 == 1 && !case.text.contains("Layout"),
    };
    if no_skip && case.fixed.is_none() {
        let tight: Vec<String> = case.inputs.iter().take(16).map(|i| i.split_whitespace().collect::<String>()).filter(|i| !i.is_empty()).collect();
        for t in tight {
            case.inputs.push(format!("{} ", t));
            case.inputs.push(format!("{}\n", t));
            case.inputs.push(t);
        }
        rep.count("cases_without_whitespace_skipping", 1);
    }
    let case = &case;
    for glr in [false, true] {
        for gen_table in [0u8, 1] {
            let m = format!("g{}", krate.modules.len());
            // LR: prefer shifts so that more grammars are deterministic; GLR: defaults
            // table type: the default of the algorithm, or (a third of the cases each) an explicit one - also LALR_RN
            // under LR and plain LALR under GLR, which are selectable and compute tables the source has to encode too
            // (the literature corpus always with the algorithm's default table: its right-nulled shapes are there on purpose)
            let generated = ["bnf", "lex", "layout", "big", "fancy"].contains(&case.origin.as_str());
            let tsel = if generated { (crate::ag::fnv(&case.text) as usize + glr as usize) % 3 } else { 0 };
            let table = match (case.fixed, tsel) {
                (Some((t, _)), _) => t,
                (None, 0) => None,
                (None, 1) => Some(if glr { 0u8 } else { 2u8 }),
                _ => Some(if glr { 2u8 } else { 0u8 }),
            };
            let spec = SetSpec { glr, gen_table, table, ps: if glr { None } else { Some(true) }, ms: case.lex.0, lm: case.lex.1, fancy: case.fancy, skip_ws: !no_skip, ..Default::default() };
            let c = generate_into(&krate.src(), &m, &case.text, &spec);
            let (Outcome::Ok, Some(d)) = (&c.outcome, &c.dump) else {
                rep.count("not_generated", 1);
                let _ = std::fs::remove_file(krate.src().join(format!("{}.rustemo", m)));
                let _ = std::fs::remove_file(krate.src().join(format!("{}.rs", m)));
                continue;
            };
            let Ok(dy) = Dyn::new(d, spec.dyn_cfg()) else { continue };
            let (mut body, mut exp) = definition_check(&m, d, &spec);
            body.push_str(&parse_check(&m, d, &spec, &case.inputs));
            for (i, input) in case.inputs.iter().enumerate() {
                exp.push(format!("P {} {}", i, dyn_result(&dy, glr, input)));
            }
            let multi = d.table.states.iter().any(|s| s.actions.iter().any(|a| a.len() > 1));
            let nogoto = d.table.states.iter().any(|s| s.gotos.iter().all(|g| g.is_none()));
            rep.count("modules", 1);
            rep.count("cells_expected", exp.len() as u64);
            krate.modules.push(Module {
                name: m.clone(),
                check_fn: wrap_check_fn(&m, &body),
                expected: exp,
                info: json!({"grammar": case.text, "origin": case.origin, "settings": spec.to_json(), "inputs": case.inputs, "states": d.table.states.len(), "multi_action_cell": multi, "state_without_goto": nogoto}),
            });
        }
    }
}

pub fn gen_case(rng: &mut Rng, i: usize) -> Option<Case> {
    match i % 4 {
        0 | 1 => {
            let g = if i % 8 == 1 { gen_ctx(rng) } else { gen_bnf(rng, &BnfOpts { max_nt: 5, max_t: 4, max_alts: 3, max_len: 4, p_empty: 0.2 }) };
            // (cyclic grammars give cyclic forests on which solutions() recurses forever: outside every property's scope)
            if !g.reduced() || g.cyclic() {
                return None;
            }
            let mut inputs = vec![String::new(), "?".into()];
            for w in all_strings(g.terms.len(), len_for(g.terms.len(), 3, 60)) {
                inputs.push(render_plain(&g, &w).0);
            }
            for _ in 0..8 {
                if let Some(w) = random_sentence(&g, rng, 8) {
                    if w.len() <= 12 {
                        inputs.push(render_ws(&g, &w, rng).0);
                    }
                }
            }
            Some(Case { origin: "bnf".into(), text: g.text(), inputs, lex: (true, true), fancy: false, fixed: None })
        }
        2 => {
            let lg = gen_lex(rng);
            let mut inputs = all_inputs(&alphabet(&lg), 3);
            inputs.truncate(120);
            Some(Case { origin: "lex".into(), text: lg.text(), inputs, lex: (rng.chance(0.5), rng.chance(0.5)), fancy: false, fixed: None })
        }
        _ => {
            let g = gen_bnf(rng, &BnfOpts::default());
            if !g.reduced() || g.cyclic() {
                return None;
            }
            let fam = rng.range(1, 7) as u8;
            let mut inputs = vec![];
            for _ in 0..10 {
                if let Some(w) = random_sentence(&g, rng, 6) {
                    if w.len() <= 10 {
                        let mut r2 = rng.clone();
                        let (inp, _) = render(&g, &w, |_| gen_layout(&mut r2, fam, true, false), "", "");
                        *rng = r2;
                        inputs.push(inp);
                    }
                }
            }
            inputs.push("/* x".into());
            Some(Case { origin: "layout".into(), text: grammar_text(&g, fam), inputs, lex: (true, true), fancy: false, fixed: None })
        }
    }
}

pub fn main(a: &Args) {
    let mut rep = Rep::new(a.out.as_deref());
    let mut rng = a.rng(8);
    let dir = a.extra.get("crate-dir").expect("--crate-dir");
    let mut krate = Crate::new(Path::new(dir));
    if let Some(path) = &a.replay {
        let v: Value = serde_json::from_str(&std::fs::read_to_string(path).expect("read replay")).expect("json");
        let info = &v["case"]["info"];
        let case = Case {
            origin: "replay".into(),
            text: info["grammar"].as_str().unwrap().to_string(),
            inputs: info["inputs"].as_array().unwrap().iter().map(|x| x.as_str().unwrap().to_string()).collect(),
            lex: (info["settings"]["ms"].as_bool().unwrap_or(true), info["settings"]["lm"].as_bool().unwrap_or(true)),
            fancy: info["settings"]["fancy"].as_bool().unwrap_or(false),
            fixed: Some((info["settings"]["table"].as_u64().map(|t| t as u8), info["settings"]["skip_ws"].as_bool().unwrap_or(true))),
        };
        emit_case(&mut krate, &case, &mut rep);
    } else {
        let n = a.n.unwrap_or(2);
        if a.shard == 0 {
            for (name, g) in corpus().into_iter().take(if a.thorough { 40 } else { 6 }) {
                let mut inputs = vec![String::new()];
                for w in all_strings(g.terms.len(), len_for(g.terms.len(), 3, 40)) {
                    inputs.push(render_plain(&g, &w).0);
                }
                emit_case(&mut krate, &Case { origin: name, text: g.text(), inputs, lex: (true, true), fancy: false, fixed: None }, &mut rep);
            }
        }
        if a.shard == 3 {
            // fancy_regex recognisers (look-ahead, back-reference) incl. an input on which the matcher gives up
            // (backtrack limit): "not recognised" like any other failure, in the generated recogniser as in route D
            let text = "S: Item+;\nItem: Key Colon Num | Word | Twice;\nterminals\nKey: /(?:\\w+[.-]?)+(?=:)/;\nColon: ':';\nNum: /\\d+/;\nTwice: /(\\w)\\1!/;\nWord: /[a-z]+/;\n";
            let inputs: Vec<String> = ["ab: 1", "ab cd", "x.y-z: 7 q", "aa! b", "aaaaaaaaaaaaaaaaaaaaaaaaaaaaaaaaaaaaaaaaaaaa", "a.b.c.d.e.f.g.h.i.j.k.l.m.n.o.p.q.r.s.t.u.v.w.x.y.z.a.b.c.d q", "ab:", ": 1", ""].iter().map(|x| x.to_string()).collect();
            emit_case(&mut krate, &Case { origin: "fancy".into(), text: text.into(), inputs, lex: (true, true), fancy: true, fixed: None }, &mut rep);
            rep.count("fancy_regex_cases", 1);
        }
        if a.shard == 2 {
            // two terminals with one recogniser, both expected in one state (the typedef-name / identifier idiom, a keyword
            // under two names): the expected-token lists of the source must keep both, GLR follows both
            let text = "S: Decl+;\nDecl: Tname Name Semi | Name Eq Name Semi | Kw Name Semi | Kx Name Eq Semi;\nterminals\nTname: /[a-z]+/;\nName: /[a-z]+/;\nKw: 'let';\nKx: 'let';\nSemi: ';';\nEq: '=';\n";
            let inputs: Vec<String> = ["t x;", "x = y;", "let x;", "let x =;", "t x; x = y; let z;", "x y z;", "let let;", "let = let;", "= x;", "t", ""].iter().map(|x| x.to_string()).collect();
            emit_case(&mut krate, &Case { origin: "twins".into(), text: text.into(), inputs, lex: (true, true), fancy: false, fixed: None }, &mut rep);
            rep.count("twin_recogniser_cases", 1);
        }
        if a.shard == 4 {
            // a regex that starts with `^`: it anchors the first alternative only, the generated anchor group is still needed
            let text = "S: Item+;\nItem: Keyword | Num | Op;\nterminals\nKeyword: /^let|var/;\nNum: /\\d+/;\nOp: /^\\+|-|^\\*/;\n";
            let inputs: Vec<String> = ["12 var 7 let", "let 1 var", "var", "1 2 3 var", "1 + 2 - 3 * 4", "7 -", "+ var", "1\n2 var\n3 let -", "x var", ""].iter().map(|x| x.to_string()).collect();
            emit_case(&mut krate, &Case { origin: "anchored".into(), text: text.into(), inputs, lex: (true, true), fancy: false, fixed: None }, &mut rep);
            rep.count("caret_regex_cases", 1);
        }
        if a.shard == 1 {
            // tables with hundreds of states and dozens of terminals / non-terminals (enum sizes, wide rows, long match arms)
            let mut made_big = 0;
            for _ in 0..20 {
                let g = gen_big(&mut rng);
                if !g.reduced() || g.cyclic() {
                    continue;
                }
                let mut inputs = vec![String::new(), "k00 ?".into()];
                for _ in 0..12 {
                    let budget = rng.range(4, 40);
                    if let Some(mut w) = random_sentence(&g, &mut rng, budget) {
                        if w.len() <= 60 {
                            inputs.push(render_ws(&g, &w, &mut rng).0);
                            if !w.is_empty() {
                                let k = rng.below(w.len());
                                w[k] = rng.below(g.terms.len());
                                inputs.push(render_plain(&g, &w).0);
                            }
                        }
                    }
                }
                let before = krate.modules.len();
                emit_case(&mut krate, &Case { origin: "big".into(), text: g.text(), inputs, lex: (true, true), fancy: false, fixed: None }, &mut rep);
                if krate.modules.len() > before {
                    rep.count("big_family_cases", 1);
                    made_big += 1;
                    if made_big >= (if a.thorough { 3 } else { 1 }) {
                        break;
                    }
                }
            }
        }
        let mut i = 0;
        let mut made = 0;
        while made < n && i < n * 20 {
            i += 1;
            if let Some(c) = gen_case(&mut rng, i + a.shard as usize) {
                let before = krate.modules.len();
                emit_case(&mut krate, &c, &mut rep);
                if krate.modules.len() > before {
                    made += 1;
                }
            }
        }
    }
    krate.finish(&format!("s{}", a.shard));
    rep.count("evaluations", 0);
    rep.finish();
}
