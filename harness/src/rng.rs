//! Small deterministic PRNG (splitmix64 seeding + xoshiro256**). No external
//! crate so that a given VERIF_SEED replays bit-for-bit forever.
#[derive(Clone)]
pub struct Rng {
    s: [u64; 4],
}

fn splitmix(x: &mut u64) -> u64 {
    *x = x.wrapping_add(0x9E3779B97F4A7C15);
    let mut z = *x;
    z = (z ^ (z >> 30)).wrapping_mul(0xBF58476D1CE4E5B9);
    z = (z ^ (z >> 27)).wrapping_mul(0x94D049BB133111EB);
    z ^ (z >> 31)
}

impl Rng {
    pub fn new(seed: u64) -> Rng {
        let mut x = seed ^ 0x5DEECE66D;
        let s = [splitmix(&mut x), splitmix(&mut x), splitmix(&mut x), splitmix(&mut x)];
        Rng { s }
    }
    /// Independent stream derived from (seed, a, b).
    pub fn derive(seed: u64, a: u64, b: u64) -> Rng {
        Rng::new(seed.wrapping_mul(0x9E3779B97F4A7C15) ^ a.wrapping_mul(0xC2B2AE3D27D4EB4F) ^ b.wrapping_mul(0x165667B19E3779F9))
    }
    pub fn next(&mut self) -> u64 {
        let r = self.s[1].wrapping_mul(5).rotate_left(7).wrapping_mul(9);
        let t = self.s[1] << 17;
        self.s[2] ^= self.s[0];
        self.s[3] ^= self.s[1];
        self.s[1] ^= self.s[2];
        self.s[0] ^= self.s[3];
        self.s[2] ^= t;
        self.s[3] = self.s[3].rotate_left(45);
        r
    }
    /// uniform in lo..=hi
    pub fn range(&mut self, lo: usize, hi: usize) -> usize {
        debug_assert!(lo <= hi);
        lo + (self.next() % ((hi - lo + 1) as u64)) as usize
    }
    pub fn below(&mut self, n: usize) -> usize {
        (self.next() % (n as u64)) as usize
    }
    pub fn chance(&mut self, p: f64) -> bool {
        ((self.next() >> 11) as f64 / (1u64 << 53) as f64) < p
    }
    pub fn pick<'a, T>(&mut self, v: &'a [T]) -> &'a T {
        &v[self.below(v.len())]
    }
    pub fn shuffle<T>(&mut self, v: &mut [T]) {
        for i in (1..v.len()).rev() {
            let j = self.below(i + 1);
            v.swap(i, j);
        }
    }
}
