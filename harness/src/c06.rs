//! C06: lexical disambiguation against the documented order of strategies.
//! LR: exact token sequence / error offset via an oracle-side walk of the
//! dumped table with an independent lexer model. GLR (flat family): the set of
//! token paths over all trees equals the set of survivor paths.
use crate::ag::*;
use crate::comp::*;
use crate::dynp::{self, guarded, Dyn, LTree};
use crate::rep::{Args, Rep};
use crate::rng::Rng;
use crate::tree::leaves;
use rustemo::TreeBuilder;
use rustemo_compiler::verif::{Dump, VAction};
use serde_json::{json, Value};
use std::collections::BTreeSet;

/// (name, recognizer text) — deliberate overlaps over the alphabet {a,b,c,1}
const POOL: &[(&str, &str)] = &[
    ("Sa", "'a'"),
    ("Sab", "'ab'"),
    ("Sabc", "'abc'"),
    ("Sb", "'b'"),
    ("Sbc", "'bc'"),
    ("Sc", "'c'"),
    ("Sca", "'ca'"),
    ("S1", "'1'"),
    ("Sa1", "'a1'"),
    ("Rap", "/a+/"),
    ("Rabp", "/[ab]+/"),
    ("Racp", "/[a-c]+/"),
    ("Rw", "/\\w+/"),
    ("Rabq", "/ab?/"),
    ("Rbpc", "/b+c?/"),
    ("Rd", "/\\d+/"),
    ("Rid", "/[a-c]\\d*/"),
    ("Rcx", "/c[ab]*/"),
    ("Ralt", "/ab|c/"),
    ("Ralt2", "/(b|abc)/"),
    ("Rany", "/[a-c1]/"),
    // more of the same alphabet: enough terminals for states that expect more than twenty of them
    ("Saa", "'aa'"),
    ("Sba", "'ba'"),
    ("Scb", "'cb'"),
    ("S11", "'11'"),
    ("Sb1", "'b1'"),
    ("Sbca", "'bca'"),
    ("Rasb", "/a*b/"),
    ("Rbcp", "/[bc]+/"),
    ("Rabcq", "/a[bc]?/"),
    ("Raorbc", "/(a|b)c/"),
    ("R1p", "/1+/"),
    ("Rab1p", "/[ab1]+/"),
    ("Rcq1", "/c?1/"),
    // alternations whose text starts with `(` and ends with `)` without being one group
    ("Rgrp", "/(ab)|(c)/"),
    ("Rgrp2", "/(a+)|(b1)/"),
    ("Rgrp3", "/(c)|(1+)|(ba)/"),
    // leading inline flags (the generated anchor has to stay outside of their scope)
    ("Rml", "/(?m)b+$/"),
    ("Ric", "/(?i)AB?/"),
];

#[derive(Clone, Debug)]
pub struct LTerm {
    pub name: String,
    pub rec: Rec,
    pub prio: u32,
}

#[derive(Clone, Debug)]
pub struct LexG {
    pub terms: Vec<LTerm>,
    /// 0 flat, 1 contextual (X Y)+
    pub family: u8,
    pub split: usize,
}

impl LexG {
    pub fn text(&self) -> String {
        let names: Vec<&str> = self.terms.iter().map(|t| t.name.as_str()).collect();
        let mut s = String::new();
        if self.family == 0 {
            s.push_str("S: S T | T;\n");
            s.push_str(&format!("T: {};\n", names.join(" | ")));
        } else {
            s.push_str("S: X Y S | X Y;\n");
            s.push_str(&format!("X: {};\n", names[..self.split].join(" | ")));
            s.push_str(&format!("Y: {};\n", names[self.split..].join(" | ")));
        }
        s.push_str("terminals\n");
        for t in &self.terms {
            let rec = match &t.rec {
                Rec::Lit(l) => format!("'{}'", l),
                Rec::Re(r) => format!("/{}/", r),
            };
            let meta = if t.prio != 10 { format!(" {{{}}}", t.prio) } else { String::new() };
            s.push_str(&format!("{}: {}{};\n", t.name, rec, meta));
        }
        s
    }
    pub fn to_json(&self) -> Value {
        json!({"family": self.family, "split": self.split, "terms": self.terms.iter().map(|t| json!({"name": t.name, "lit": match &t.rec { Rec::Lit(l) => Some(l.clone()), _ => None }, "re": match &t.rec { Rec::Re(l) => Some(l.clone()), _ => None }, "prio": t.prio})).collect::<Vec<_>>()})
    }
    pub fn from_json(v: &Value) -> LexG {
        LexG {
            family: v["family"].as_u64().unwrap() as u8,
            split: v["split"].as_u64().unwrap() as usize,
            terms: v["terms"]
                .as_array()
                .unwrap()
                .iter()
                .map(|t| LTerm {
                    name: t["name"].as_str().unwrap().into(),
                    rec: match t["lit"].as_str() {
                        Some(l) => Rec::Lit(l.into()),
                        None => Rec::Re(t["re"].as_str().unwrap().into()),
                    },
                    prio: t["prio"].as_u64().unwrap() as u32,
                })
                .collect(),
        }
    }
}

pub fn gen_lex(rng: &mut Rng) -> LexG {
    gen_lex_n(rng, 2, 6)
}

/// Wide variant: one state expects more than twenty terminals, declared in random (not key-sorted) order.
pub fn gen_lex_wide(rng: &mut Rng) -> LexG {
    let mut g = gen_lex_n(rng, 21, POOL.len());
    g.family = 0;
    g.split = 0;
    g
}

fn gen_lex_n(rng: &mut Rng, lo: usize, hi: usize) -> LexG {
    let n = rng.range(lo, hi);
    let mut idx: Vec<usize> = (0..POOL.len()).collect();
    rng.shuffle(&mut idx);
    let mut terms = vec![];
    for &i in idx.iter().take(n) {
        let (name, r) = POOL[i];
        let rec = if let Some(l) = r.strip_prefix('\'') { Rec::Lit(l.trim_end_matches('\'').to_string()) } else { Rec::Re(r[1..r.len() - 1].to_string()) };
        let prio = if rng.chance(0.45) { *rng.pick(&[5u32, 15, 15, 20]) } else { 10 };
        terms.push(LTerm { name: name.to_string(), rec, prio });
    }
    let family = if n >= 3 && rng.chance(0.3) { 1 } else { 0 };
    let split = if family == 1 { rng.range(1, n - 1) } else { 0 };
    LexG { terms, family, split }
}

/// Independent lexer model: the documented selection as a pure function.
pub struct LexModel {
    /// per dump terminal index (0 = STOP): (is_string, prio, matcher)
    pub terms: Vec<(bool, u32, Option<regex::Regex>, Option<String>)>,
}

impl LexModel {
    pub fn new(d: &Dump, g: &LexG) -> LexModel {
        let mut terms = vec![];
        for t in &d.grammar.terminals {
            match g.terms.iter().find(|x| x.name == t.name) {
                None => terms.push((false, 0, None, None)), // STOP
                Some(lt) => match &lt.rec {
                    Rec::Lit(l) => terms.push((true, lt.prio, None, Some(l.clone()))),
                    // intended meaning of a regex terminal: a match *at* the current position
                    Rec::Re(r) => terms.push((false, lt.prio, Some(regex::Regex::new(&format!("^(?:{})", r)).unwrap()), None)),
                },
            }
        }
        LexModel { terms }
    }
    pub fn match_len(&self, input: &str, p: usize, term: usize) -> Option<usize> {
        let rest = &input[p..];
        if term == 0 {
            return if rest.is_empty() { Some(0) } else { None };
        }
        let (_, _, re, lit) = &self.terms[term];
        if let Some(l) = lit {
            return if rest.starts_with(l.as_str()) { Some(l.len()) } else { None };
        }
        re.as_ref().unwrap().find(rest).map(|m| m.end())
    }
    /// expected: dump terminal indexes in grammar order. Returns survivors (term, len) in grammar order.
    pub fn select(&self, input: &str, p: usize, expected: &[usize], ms: bool, lm: bool, go: bool) -> (Vec<(usize, usize)>, bool) {
        let mut m: Vec<(usize, usize)> = expected.iter().filter_map(|t| self.match_len(input, p, *t).map(|l| (*t, l))).collect();
        let n_matching = m.len();
        if m.is_empty() {
            return (m, false);
        }
        // 1. highest priority among the matching ones (STOP only ever matches alone)
        let top = m.iter().map(|(t, _)| self.terms[*t].1).max().unwrap();
        m.retain(|(t, _)| self.terms[*t].1 == top);
        // 2. most specific: the longest matching string recogniser beats any regex
        if ms && m.iter().any(|(t, _)| self.terms[*t].0) {
            let best = m.iter().filter(|(t, _)| self.terms[*t].0).map(|(_, l)| *l).max().unwrap();
            m.retain(|(t, l)| self.terms[*t].0 && *l == best);
        }
        // 3. longest match
        if lm {
            let best = m.iter().map(|(_, l)| *l).max().unwrap();
            m.retain(|(_, l)| *l == best);
        }
        // 4. grammar order
        if go {
            m.truncate(1);
        }
        (m, n_matching >= 2)
    }
}

pub fn skip_ws(input: &str, mut p: usize) -> usize {
    while let Some(c) = input[p..].chars().next() {
        if c.is_whitespace() {
            p += c.len_utf8();
        } else {
            break;
        }
    }
    p
}

pub enum Walk {
    Ok(Vec<(usize, usize, usize)>),
    Err(usize),
    Undecided(String),
}

/// Oracle-side LR walk over the dumped table with the lexer model. Also tells whether
/// a position was contested (>= 2 expected terminals matched).
pub fn lr_walk(d: &Dump, lm: &LexModel, input: &str, ms: bool, lmatch: bool, contested: &mut bool, disagree: &mut bool) -> Walk {
    let mut stack = vec![0usize];
    let mut pos = 0;
    let mut toks = vec![];
    for _ in 0..20000 {
        let st = &d.table.states[*stack.last().unwrap()];
        let expected: Vec<usize> = (0..st.actions.len()).filter(|t| !st.actions[*t].is_empty()).collect();
        pos = skip_ws(input, pos);
        let (sel, cont) = lm.select(input, pos, &expected, ms, lmatch, true);
        if cont {
            *contested = true;
            // do the strategies matter here? compare with "first matching in grammar order"
            let (plain, _) = lm.select(input, pos, &expected, false, false, true);
            let naive = expected.iter().find_map(|t| lm.match_len(input, pos, *t).map(|l| (*t, l)));
            if plain != sel || naive.map(|x| vec![x]).unwrap_or_default() != sel {
                *disagree = true;
            }
        }
        let Some((tk, len)) = sel.first().cloned() else { return Walk::Err(pos) };
        let acts = &st.actions[tk];
        if acts.len() != 1 {
            return Walk::Undecided("multi-action cell in LR table".into());
        }
        match &acts[0] {
            VAction::Shift(s) => {
                if len == 0 {
                    return Walk::Undecided("zero-width token".into());
                }
                toks.push((tk, pos, pos + len));
                pos += len;
                stack.push(*s);
            }
            VAction::Reduce(p, l) => {
                for _ in 0..*l {
                    stack.pop();
                }
                let nt = d.grammar.productions[*p].nonterminal;
                let Some(g) = d.table.states[*stack.last().unwrap()].gotos[nt] else { return Walk::Undecided("missing goto".into()) };
                stack.push(g);
            }
            VAction::Accept => return Walk::Ok(toks),
        }
    }
    Walk::Undecided("walk too long".into())
}

fn tree_tokens(t: &LTree) -> Vec<(usize, usize, usize)> {
    let mut lv = vec![];
    leaves(t, &mut lv);
    lv.iter().map(|l| (l.kind.0 as usize, l.span.start.pos, l.span.end.pos)).collect()
}

fn show_toks(d: &Dump, input: &str, t: &[(usize, usize, usize)]) -> String {
    t.iter().map(|(k, s, e)| format!("{}({:?})", d.grammar.terminals[*k].name, &input[*s..*e])).collect::<Vec<_>>().join(" ")
}

pub fn alphabet(g: &LexG) -> Vec<char> {
    let mut a = vec!['a', 'b', 'c', ' '];
    if g.terms.iter().any(|t| matches!(&t.rec, Rec::Re(r) if r.contains("(?m"))) {
        a.push('\n');
    }
    if g.terms.iter().any(|t| match &t.rec {
        Rec::Lit(l) => l.contains('1'),
        Rec::Re(r) => r.contains("\\d") || r.contains("\\w") || r.contains('1'),
    }) {
        a.push('1');
    }
    a
}

pub fn all_inputs(alpha: &[char], l: usize) -> Vec<String> {
    let mut out = vec![String::new()];
    let mut cur = vec![String::new()];
    for _ in 0..l {
        let mut next = vec![];
        for s in &cur {
            for c in alpha {
                let mut n = s.clone();
                n.push(*c);
                next.push(n);
            }
        }
        out.extend(next.iter().cloned());
        cur = next;
    }
    out
}

pub fn run_case(g: &LexG, spec: &SetSpec, wd: &Workdir, rep: &mut Rep, inputs: &[String]) {
    let text = g.text();
    let case0 = |extra: Value| json!({"grammar": text, "lexg": g.to_json(), "settings": spec.to_json(), "extra": extra});
    crate::rep::watchdog::set(|| case0(json!(null)).to_string());
    let c = wd.compile(&text, spec);
    rep.count("compilations", 1);
    let (Outcome::Ok, Some(d)) = (&c.outcome, &c.dump) else {
        // e.g. duplicate recogniser diagnostics; the families themselves are conflict-free
        rep.count(&format!("not_compiled:{}", c.outcome.show().chars().take(60).collect::<String>()), 1);
        return;
    };
    let dy = match Dyn::new(d, spec.dyn_cfg()) {
        Ok(x) => x,
        Err(e) => {
            rep.harness_error(&e, case0(json!(null)));
            return;
        }
    };
    let lm = LexModel::new(d, g);
    let go = spec.grammar_order();
    if spec.glr {
        // premise of the lattice oracle: every state with terminal actions expects every terminal
        let nt = d.grammar.terminals.len();
        let flat = d.table.states.iter().all(|s| (1..nt).all(|t| !s.actions[t].is_empty()));
        if !flat {
            rep.inconclusive("glr-family-not-flat");
            return;
        }
    }
    let mut any_disagree = false;
    for input in inputs {
        let case = |extra: Value| json!({"grammar": text, "lexg": g.to_json(), "settings": spec.to_json(), "input": input, "extra": extra});
        let sig = |k: &str| format!("{}:{}:{}:{}", k, fnv(&text), fnv(&spec.to_json().to_string()), fnv(input));
        rep.count("evaluations", 1);
        crate::rep::watchdog::touch();
        dynp::set_step_limit(2_000_000);
        if !spec.glr {
            let mut contested = false;
            let mut disagree = false;
            let w = lr_walk(d, &lm, input, spec.ms, spec.lm, &mut contested, &mut disagree);
            if contested {
                rep.count("inputs_with_contested_position", 1);
            }
            any_disagree |= disagree;
            let r = guarded(|| dy.lr_parse(input).map(|t| tree_tokens(&t)));
            match (w, r) {
                (Walk::Undecided(why), _) => rep.inconclusive(&why),
                (_, Err(pm)) => rep.violation("C06", &sig("panic"), &format!("LR parser panicked or ran away: {:?}", pm), case(json!(null))),
                (Walk::Ok(exp), Ok(Ok(got))) => {
                    if exp != got {
                        rep.violation("C06", &sig("lr-tokens"), &format!("LR acted on tokens [{}] but the documented strategies select [{}]", show_toks(d, input, &got), show_toks(d, input, &exp)), case(json!(null)));
                    }
                }
                (Walk::Ok(exp), Ok(Err(e))) => rep.violation("C06", &sig("lr-rejects"), &format!("LR rejects ({}) although the documented strategies select [{}]", e.to_pos_str().replace('\n', " "), show_toks(d, input, &exp)), case(json!(null))),
                (Walk::Err(p), Ok(Ok(got))) => rep.violation("C06", &sig("lr-accepts"), &format!("LR accepts with tokens [{}] although no expected terminal survives at offset {}", show_toks(d, input, &got), p), case(json!(null))),
                (Walk::Err(p), Ok(Err(e))) => {
                    let at = match &e {
                        rustemo::Error::ParseError(pe) => pe.span.map(|s| s.start.pos),
                        _ => None,
                    };
                    if at != Some(p) {
                        rep.violation("C06", &sig("lr-erroffset"), &format!("LR reports the error at {:?} but the first position where nothing matches is {}", at, p), case(json!(null)));
                    }
                }
            }
        } else {
            // flat family: every state expects every terminal (+STOP), so the survivors form a lattice
            let n = input.len();
            let all: Vec<usize> = (1..d.grammar.terminals.len()).collect();
            let mut paths: BTreeSet<Vec<(usize, usize, usize)>> = BTreeSet::new();
            let mut stack: Vec<(usize, Vec<(usize, usize, usize)>)> = vec![(0, vec![])];
            let mut blown = false;
            let mut contested = false;
            while let Some((p, toks)) = stack.pop() {
                let p = skip_ws(input, p);
                if p == n {
                    if !toks.is_empty() {
                        paths.insert(toks);
                    }
                    continue;
                }
                let (sel, cont) = lm.select(input, p, &all, spec.ms, spec.lm, go);
                contested |= cont;
                if sel.len() >= 2 {
                    any_disagree = true;
                }
                for (t, l) in sel {
                    let mut nt = toks.clone();
                    nt.push((t, p, p + l));
                    stack.push((p + l, nt));
                }
                if stack.len() + paths.len() > 3000 {
                    blown = true;
                    break;
                }
            }
            if blown {
                rep.inconclusive("too-many-lexical-paths");
                continue;
            }
            if contested {
                rep.count("inputs_with_contested_position", 1);
            }
            let r = guarded(|| {
                dy.glr_parse(input).map(|f| {
                    let sol = f.solutions();
                    let mut got = vec![];
                    if sol <= 4000 {
                        for t in f.iter() {
                            let mut b = TreeBuilder::new();
                            let tn: LTree = t.build::<_, dynp::St>(&mut b);
                            got.push(tree_tokens(&tn));
                        }
                    }
                    (sol, got)
                })
            });
            let showp = |ps: &BTreeSet<Vec<(usize, usize, usize)>>| ps.iter().take(6).map(|p| show_toks(d, input, p)).collect::<Vec<_>>();
            match r {
                Err(pm) => rep.violation("C06", &sig("glr-panic"), &format!("GLR parser panicked or ran away: {:?}", pm), case(json!(null))),
                Ok(Err(e)) => {
                    if !paths.is_empty() {
                        rep.violation("C06", &sig("glr-rejects"), &format!("GLR rejects ({}) although {} token path(s) survive the enabled strategies", e.to_pos_str().replace('\n', " "), paths.len()), case(json!({"paths": showp(&paths)})));
                    }
                }
                Ok(Ok((sol, got))) => {
                    let gset: BTreeSet<Vec<(usize, usize, usize)>> = got.iter().cloned().collect();
                    if sol != paths.len() || gset != paths || got.len() != gset.len() {
                        rep.violation("C06", &sig("glr-paths"), &format!("GLR follows {} token path(s) ({} distinct) but {} survive the enabled strategies", sol, gset.len(), paths.len()), case(json!({"glr": showp(&gset), "expected": showp(&paths)})));
                    } else if paths.len() >= 2 {
                        rep.count("glr_inputs_with_several_paths", 1);
                    }
                }
            }
        }
    }
    if any_disagree {
        rep.distinct("nontrivial", fnv(&format!("{}|{}", text, spec.to_json())));
    }
    rep.sample(json!({"grammar": text, "algo": if spec.glr { "GLR" } else { "LR" }, "most_specific": spec.ms, "longest_match": spec.lm, "grammar_order": go, "inputs": inputs.len(), "strategies_matter": any_disagree}));
}

pub fn main(a: &Args) {
    let mut rep = Rep::new(a.out.as_deref());
    let wd = Workdir::new("c06");
    if let Some(path) = &a.replay {
        let v: Value = serde_json::from_str(&std::fs::read_to_string(path).expect("read replay")).expect("json");
        let case = &v["case"];
        let g = LexG::from_json(&case["lexg"]);
        let spec = SetSpec::from_json(&case["settings"]);
        run_case(&g, &spec, &wd, &mut rep, &[case["input"].as_str().unwrap_or("").to_string()]);
        rep.finish();
        return;
    }
    let (n, maxlen) = if a.thorough { (a.n.unwrap_or(400), 6) } else { (a.n.unwrap_or(40), 5) };
    let mut rng = a.rng(6);
    if a.shard == 0 {
        // the most-specific rule must never outrank a priority, however long the string recogniser is
        for len in [999usize, 1000, 1001, 2500] {
            let q = "q".repeat(len);
            let g = LexG { terms: vec![LTerm { name: "Lq".into(), rec: Rec::Lit(q.clone()), prio: 10 }, LTerm { name: "Rq".into(), rec: Rec::Re("q+".into()), prio: 11 }, LTerm { name: "Rqb".into(), rec: Rec::Re("[qb]+".into()), prio: 5 }], family: 0, split: 0 };
            for (ms, lm) in [(true, true), (true, false), (false, true)] {
                let spec = SetSpec { ms, lm, ..Default::default() };
                run_case(&g, &spec, &wd, &mut rep, &[q.clone(), format!("{} b", q), format!("{}q", q), "qq".into()]);
            }
            rep.count("long_string_recogniser_cases", 1);
        }
    }
    let mut i = 0;
    while i < n && rep.elapsed() < a.max_s {
        i += 1;
        if i % 5 == 0 {
            let g = gen_lex_wide(&mut rng);
            let inputs = all_inputs(&alphabet(&g), maxlen.min(5));
            rep.count("wide_family_grammars", 1);
            rep.max("max_terminals", g.terms.len() as u64);
            for _ in 0..2 {
                let spec = SetSpec { glr: false, ms: rng.chance(0.5), lm: rng.chance(0.5), ..Default::default() };
                run_case(&g, &spec, &wd, &mut rep, &inputs);
            }
            // GLR with grammar_order: a single path as in LR
            let spec = SetSpec { glr: true, ms: rng.chance(0.5), lm: rng.chance(0.5), go: Some(true), ..Default::default() };
            run_case(&g, &spec, &wd, &mut rep, &inputs);
            continue;
        }
        let g = gen_lex(&mut rng);
        let alpha = alphabet(&g);
        let inputs = all_inputs(&alpha, maxlen);
        // two random strategy combinations per algorithm (all 8+8 are covered across grammars)
        for glr in [false, true] {
            if glr && g.family != 0 {
                continue;
            }
            for _ in 0..2 {
                let spec = SetSpec { glr, ms: rng.chance(0.5), lm: rng.chance(0.5), go: if glr { Some(rng.chance(0.35)) } else { None }, ..Default::default() };
                rep.distinct("strategy_combinations", fnv(&format!("{}{}{}{:?}", glr, spec.ms, spec.lm, spec.go)));
                run_case(&g, &spec, &wd, &mut rep, &inputs);
            }
        }
    }
    rep.finish();
}
