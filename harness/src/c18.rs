//! C18: regenerating actions with force(false) preserves every existing item
//! token for token, appends exactly what is missing, never duplicates, and is
//! idempotent — over random edit histories of the actions file.
use crate::ag::fnv;
use crate::astgen::*;
use crate::comp::*;
use crate::rep::{Args, Rep};
use crate::rng::Rng;
use quote::ToTokens;
use serde_json::{json, Value};

#[derive(Clone, Debug, PartialEq)]
pub struct It {
    /// "fn" | "type" (enum/struct/type alias) | "other"
    pub kind: &'static str,
    pub ident: Option<String>,
    pub tokens: String,
}

pub fn items(src: &str) -> Result<Vec<It>, String> {
    let f = syn::parse_file(src).map_err(|e| e.to_string())?;
    Ok(f.items
        .iter()
        .map(|i| {
            let (kind, ident) = match i {
                syn::Item::Fn(f) => ("fn", Some(f.sig.ident.to_string())),
                syn::Item::Enum(e) => ("type", Some(e.ident.to_string())),
                syn::Item::Struct(e) => ("type", Some(e.ident.to_string())),
                syn::Item::Type(e) => ("type", Some(e.ident.to_string())),
                _ => ("other", None),
            };
            // the pretty-printer adds trailing commas; they are no tokens of the user's edit
            let mut tokens = i.to_token_stream().to_string();
            for (a, b) in [(", }", " }"), (", )", " )"), (", ]", " ]"), (", >", " >"), (",}", "}"), (",)", ")")] {
                tokens = tokens.replace(a, b);
            }
            let tokens = tokens.split_whitespace().collect::<Vec<_>>().join(" ");
            It { kind, ident, tokens }
        })
        .collect())
}

const USER_ITEMS: &[&str] = &[
    "fn user_helper(x: u32) -> u32 { x + 1 }",
    "pub struct UserThing { pub a: u32 }",
    "const USER_LIMIT: usize = 42;",
    "use std::fmt::Write as UserWrite;",
    "impl UserThing { pub fn new() -> Self { UserThing { a: 0 } } }",
    "#[derive(Debug)] pub enum UserKind { A, B(u8) }",
    "pub type UserAlias = Vec<UserThing>;",
    "mod user_inner { pub fn f() {} }",
    "/// documented user function\npub fn user_documented() {}",
    "static USER_STATIC: &str = \"s\";",
];

/// One random edit step on the source text; returns the new text.
pub fn edit(src: &str, rng: &mut Rng, log: &mut Vec<String>) -> String {
    let f = match syn::parse_file(src) {
        Ok(f) => f,
        Err(_) => return src.to_string(),
    };
    let mut its: Vec<syn::Item> = f.items.clone();
    match rng.below(6) {
        0 | 1 => {
            // delete a random subset
            let p = *rng.pick(&[0.1, 0.3, 0.6, 1.0]);
            let before = its.len();
            its.retain(|_| !rng.chance(p));
            log.push(format!("delete {} of {} items", before - its.len(), before));
        }
        2 => {
            // rewrite bodies of some functions
            let mut n = 0;
            for i in its.iter_mut() {
                if let syn::Item::Fn(f) = i {
                    if rng.chance(0.4) {
                        f.block = Box::new(syn::parse_str("{ unimplemented!(\"user rewrote this\") }").unwrap());
                        n += 1;
                    }
                }
            }
            log.push(format!("rewrite {} function bodies", n));
        }
        3 => {
            let k = rng.range(1, 3);
            for _ in 0..k {
                let u = *rng.pick(USER_ITEMS);
                let item: syn::Item = syn::parse_str(u).unwrap();
                // never insert a user item twice (compare the way the judge does: idents, else normalised tokens)
                let norm = |i: &syn::Item| items(&i.to_token_stream().to_string()).ok().and_then(|v| v.into_iter().next());
                let new = norm(&item);
                if its.iter().any(|x| {
                    let old = norm(x);
                    match (&old, &new) {
                        (Some(o), Some(n)) => (o.ident.is_some() && o.ident == n.ident && o.kind == n.kind) || o.tokens == n.tokens,
                        _ => false,
                    }
                }) {
                    continue;
                }
                let pos = rng.range(0, its.len());
                its.insert(pos, item);
            }
            log.push(format!("add up to {} user items", k));
        }
        4 => {
            rng.shuffle(&mut its);
            log.push("reorder all items".into());
        }
        _ => {
            // delete a type but keep its helper types (and vice versa): drop one random type item
            let types: Vec<usize> = its.iter().enumerate().filter(|(_, i)| matches!(i, syn::Item::Enum(_) | syn::Item::Struct(_) | syn::Item::Type(_))).map(|(k, _)| k).collect();
            if !types.is_empty() {
                let k = *rng.pick(&types);
                its.remove(k);
                log.push("delete one type item".into());
            }
        }
    }
    let nf = syn::File { shebang: None, attrs: f.attrs.clone(), items: its };
    nf.to_token_stream().to_string()
}

pub fn judge(text: &str, history_seed: u64, wd: &Workdir, rep: &mut Rep, second_text: Option<&str>) {
    // a third of the histories run with builder_loc_info (every struct then comes as `XBase` + alias `X = ValLoc<XBase>`)
    let spec_force = SetSpec { builder: 0, ps: Some(true), force: Some(true), loc_info: history_seed % 3 == 0, ..Default::default() };
    if spec_force.loc_info {
        rep.count("histories_with_loc_info", 1);
    }
    let spec_keep = SetSpec { force: Some(false), ..spec_force.clone() };
    let case = |extra: Value| json!({"grammar": text, "second_grammar": second_text, "history_seed": history_seed.to_string(), "extra": extra});
    let sig = |k: &str| format!("{}:{}:{}", k, fnv(text), history_seed);
    crate::rep::watchdog::set(|| case(json!(null)).to_string());
    let actions_path = wd.dir.join("g_actions.rs");
    let _ = std::fs::remove_file(&actions_path);
    let c = wd.compile(text, &spec_force);
    if !c.outcome.is_ok() {
        rep.count("grammar_rejected", 1);
        return;
    }
    let Some(d) = c.dump else { return };
    let f0_src = std::fs::read_to_string(&actions_path).unwrap_or_default();
    let Ok(f0) = items(&f0_src) else {
        rep.harness_error("generated actions do not parse", case(json!(null)));
        return;
    };
    rep.count("evaluations", 1);
    // edit history
    let mut rng = Rng::new(history_seed);
    let mut log = vec![];
    let mut cur = f0_src.clone();
    let steps = rng.range(1, 4);
    let regen_between = rng.chance(0.3);
    for s in 0..steps {
        cur = edit(&cur, &mut rng, &mut log);
        if regen_between && s + 1 < steps {
            std::fs::write(&actions_path, &cur).unwrap();
            let r = wd.compile(text, &spec_keep);
            if !r.outcome.is_ok() {
                rep.violation("C18", &sig("regen-failed"), &format!("regeneration failed on an edited actions file: {}", r.outcome.show()), case(json!({"history": log})));
                return;
            }
            cur = std::fs::read_to_string(&actions_path).unwrap();
            log.push("regenerate".into());
        }
    }
    std::fs::write(&actions_path, &cur).unwrap();
    let Ok(e) = items(&cur) else {
        rep.harness_error("edited actions do not parse", case(json!({"history": log})));
        return;
    };
    // the grammar may change before the regeneration that is judged
    let (gtext, f0, d) = match second_text {
        None => (text.to_string(), f0, d),
        Some(t2) => {
            // what a forced generation of the *new* grammar produces
            let side = Workdir::new("c18b");
            let c2 = side.compile(t2, &spec_force);
            if !c2.outcome.is_ok() {
                rep.count("second_grammar_rejected", 1);
                return;
            }
            let src2 = std::fs::read_to_string(side.dir.join("g_actions.rs")).unwrap_or_default();
            let Ok(f2) = items(&src2) else { return };
            (t2.to_string(), f2, c2.dump.unwrap())
        }
    };
    let r = wd.compile(&gtext, &spec_keep);
    if !r.outcome.is_ok() {
        rep.violation("C18", &sig("regen-failed"), &format!("regeneration failed on an edited actions file: {}", r.outcome.show()), case(json!({"history": log})));
        return;
    }
    let r1_src = std::fs::read_to_string(&actions_path).unwrap();
    let r1 = match items(&r1_src) {
        Ok(x) => x,
        Err(er) => {
            rep.violation("C18", &sig("unparsable"), &format!("regenerated actions file is not valid Rust: {}", er), case(json!({"history": log})));
            return;
        }
    };
    let mut errs: Vec<String> = vec![];
    // 1. every pre-existing item survives token for token, in order, before anything appended
    if r1.len() < e.len() || r1[..e.len()] != e[..] {
        let k = (0..e.len()).find(|k| r1.get(*k) != Some(&e[*k])).unwrap_or(0);
        errs.push(format!("existing item #{} was not preserved: `{}` became `{}`", k, e[k].tokens.chars().take(100).collect::<String>(), r1.get(k).map(|x| x.tokens.chars().take(100).collect::<String>()).unwrap_or("<nothing>".into())));
    } else {
        let appended = &r1[e.len()..];
        let e_idents: std::collections::BTreeSet<(&str, &str)> = e.iter().filter_map(|i| i.ident.as_deref().map(|n| (i.kind, n))).collect();
        // 2. appended items are generated items that were absent
        for a in appended {
            if !f0.iter().any(|g| g.tokens == a.tokens) {
                errs.push(format!("appended item is not one a forced generation produces: `{}`", a.tokens.chars().take(120).collect::<String>()));
            }
            if let Some(n) = &a.ident {
                if e_idents.contains(&(a.kind, n.as_str())) {
                    errs.push(format!("appended {} `{}` although an item of that name already existed", a.kind, n));
                }
            }
        }
        // 3. nothing is defined twice
        let mut seen = std::collections::BTreeSet::new();
        for i in &r1 {
            if let Some(n) = &i.ident {
                if !seen.insert((i.kind, n.clone())) {
                    errs.push(format!("{} `{}` is defined twice after regeneration", i.kind, n));
                }
            }
        }
        // 4. every missing action function and every missing main type is there afterwards
        let r_idents: std::collections::BTreeSet<(&str, &str)> = r1.iter().filter_map(|i| i.ident.as_deref().map(|n| (i.kind, n))).collect();
        for g in &f0 {
            if g.kind == "fn" {
                let n = g.ident.as_deref().unwrap();
                if !r_idents.contains(&("fn", n)) {
                    errs.push(format!("action function `{}` is still missing after regeneration", n));
                }
            }
        }
        let nterm = d.grammar.terminals.len();
        let _ = nterm;
        let mains: Vec<String> = d.grammar.terminals.iter().filter(|t| t.has_content && t.reachable && t.name != "STOP").map(|t| t.name.clone()).chain(d.grammar.nonterminals.iter().filter(|n| n.reachable && !["EMPTY", "AUG", "AUGL"].contains(&n.name.as_str())).map(|n| n.name.clone())).collect();
        for m in &mains {
            if f0.iter().any(|g| g.kind == "type" && g.ident.as_deref() == Some(m)) && !r_idents.contains(&("type", m.as_str())) {
                errs.push(format!("type `{}` of a grammar symbol is still missing after regeneration", m));
            }
        }
        // Helper types (choice structs, `...Base`, `...NoO`) are restored together with the main type of their rule only:
        // the repository's own hand-edited action files (tests/src/glr/evaluate/calc_eval_actions.rs) replace the main
        // type and delete the helpers on purpose, so "missing" is read at the granularity of grammar symbols.
        rep.count("items_preserved", e.len() as u64);
        rep.count("items_appended", appended.len() as u64);
        if !appended.is_empty() && !e.is_empty() {
            rep.distinct("nontrivial", fnv(&format!("{}|{}", text, history_seed)));
        }
    }
    // 5. idempotence
    let r2o = wd.compile(&gtext, &spec_keep);
    let r2_src = std::fs::read_to_string(&actions_path).unwrap_or_default();
    if !r2o.outcome.is_ok() || r2_src != r1_src {
        errs.push("a second regeneration changed the file".into());
    }
    if !errs.is_empty() {
        rep.violation("C18", &sig("regen"), &format!("regeneration after [{}]: {}", log.join("; "), errs[..errs.len().min(4)].join(" | ")), case(json!({"history": log, "edited_file": cur.chars().take(3000).collect::<String>()})));
    }
    if rep.samples.len() < 3 {
        rep.sample(json!({"grammar": text, "history": log, "items_before": e.len(), "items_after": r1.len()}));
    }
}

pub fn main(a: &Args) {
    let mut rep = Rep::new(a.out.as_deref());
    let wd = Workdir::new("c18");
    let mut rng = a.rng(18);
    if let Some(path) = &a.replay {
        let v: Value = serde_json::from_str(&std::fs::read_to_string(path).expect("read replay")).expect("json");
        let case = &v["case"];
        judge(case["grammar"].as_str().unwrap(), case["history_seed"].as_str().unwrap().parse().unwrap(), &wd, &mut rep, case["second_grammar"].as_str());
        rep.finish();
        return;
    }
    let n = a.n.unwrap_or(20);
    let per = if a.thorough { 12 } else { 6 };
    let mut i = 0;
    while i < n && rep.elapsed() < a.max_s {
        i += 1;
        if i % 5 == 0 {
            // choice names that need numbering (the same symbol plainly and through the sugar in several alternatives)
            let text = crate::c17::choice_name_stress(&mut rng);
            rep.count("choice_name_stress_grammars", 1);
            for _ in 0..per {
                let hs = rng.next();
                judge(&text, hs, &wd, &mut rep, None);
            }
            continue;
        }
        let mut g = gen_ast(&mut rng);
        if rng.chance(0.3) {
            // lower-case names: the type and the action function of a terminal then share one identifier
            for t in g.terms.iter_mut() {
                if t.lit.is_none() {
                    t.name = t.name.to_lowercase();
                }
            }
        }
        let text = g.text();
        // a changed grammar: one more alternative / rule
        let g2 = {
            let mut g2 = g.clone();
            let extra = gen_ast(&mut rng);
            if let Some(r) = extra.rules.first() {
                if let Some(alt) = r.alts.first() {
                    let ok = alt.items.iter().all(|it| {
                        it.rep.map(|r| r.1.map(|s| s < g2.terms.len()).unwrap_or(true)).unwrap_or(true)
                            && match it.sym {
                                crate::ag::Sym::T(t) => t < g2.terms.len(),
                                crate::ag::Sym::N(n) => n < g2.rules.len(),
                            }
                    });
                    if ok && !g2.rules[0].alts.iter().any(|a| a.items == alt.items) {
                        let mut alt = alt.clone();
                        alt.kind = None;
                        g2.rules[0].alts.push(alt);
                    }
                }
            }
            g2.text()
        };
        for k in 0..per {
            let hs = rng.next();
            judge(&text, hs, &wd, &mut rep, if k % 3 == 2 && g2 != text { Some(&g2) } else { None });
        }
    }
    rep.finish();
}
