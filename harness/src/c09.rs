//! C09: the grammar the compiler analyses (dump) is the grammar the generator
//! wrote (abstract sugar grammar): productions, symbols, inline literals, start
//! symbol, meta-data inheritance, assignments, and the language of the sugar.
use crate::ag::*;
use crate::comp::*;
use crate::dynp::{self, guarded, Dyn};
use crate::enumr::earley;
use crate::gens::*;
use crate::rep::{Args, Rep};
use crate::rng::Rng;
use rustemo_compiler::verif::Dump;
use serde_json::{json, Value};
use std::collections::BTreeMap;

#[derive(Clone, Debug, PartialEq)]
pub struct SItem {
    pub sym: Sym,
    pub inline: bool,                   // terminal written as its string literal
    pub assign: Option<(String, bool)>, // name, is_bool (?=)
    pub rep: Option<(char, Option<usize>)>, // '?', '*', '+', separator terminal
}

#[derive(Clone, Debug)]
pub struct SAlt {
    pub items: Vec<SItem>,
    pub meta: Meta,
    /// `EMPTY` written among the items (contributes nothing): position 0..=items.len(), form 0 `EMPTY`, 1 `eN=EMPTY`, 2 `eN?=EMPTY`
    pub empties: Vec<(usize, u8)>,
}

#[derive(Clone, Debug)]
pub struct SRule {
    pub name: String,
    pub vec_annotation: bool,
    pub meta: Meta,
    pub alts: Vec<SAlt>,
}

#[derive(Clone, Debug)]
pub struct SG {
    pub terms: Vec<Term>,
    pub rules: Vec<SRule>,
}

/// The text of a string recogniser as written between single quotes.
fn esc(l: &str) -> String {
    l.replace('\\', "\\\\").replace('\'', "\\'")
}

fn lit(t: &Term) -> &str {
    match &t.rec {
        Rec::Lit(l) => l,
        _ => panic!(),
    }
}

impl SG {
    pub fn text(&self) -> String {
        let mut s = String::new();
        for r in &self.rules {
            if r.vec_annotation {
                s.push_str("@vec\n");
            }
            s.push_str(&format!("{}{}: ", r.name, r.meta.text()));
            let alts: Vec<String> = r
                .alts
                .iter()
                .map(|a| {
                    let body = if a.items.is_empty() {
                        "EMPTY".to_string()
                    } else {
                        let empty_at = |pos: usize| -> String {
                            a.empties.iter().enumerate().filter(|(_, e)| e.0 == pos).map(|(k, e)| match e.1 { 0 => "EMPTY ".to_string(), 1 => format!("e{}=EMPTY ", k), _ => format!("e{}?=EMPTY ", k) }).collect()
                        };
                        let tail = empty_at(a.items.len());
                        let mut body: String = a.items
                            .iter()
                            .enumerate()
                            .map(|(pos, it)| {
                                let mut x = empty_at(pos);
                                if let Some((n, b)) = &it.assign {
                                    x.push_str(n);
                                    x.push_str(if *b { "?=" } else { "=" });
                                }
                                match it.sym {
                                    Sym::T(t) => {
                                        if it.inline {
                                            x.push_str(&format!("'{}'", esc(lit(&self.terms[t]))))
                                        } else {
                                            x.push_str(&self.terms[t].name)
                                        }
                                    }
                                    Sym::N(n) => x.push_str(&self.rules[n].name),
                                }
                                if let Some((op, sep)) = &it.rep {
                                    x.push(*op);
                                    if let Some(sp) = sep {
                                        x.push_str(&format!("[{}]", self.terms[*sp].name));
                                    }
                                }
                                x
                            })
                            .collect::<Vec<_>>()
                            .join(" ");
                        if !tail.is_empty() {
                            body.push(' ');
                            body.push_str(tail.trim_end());
                        }
                        body
                    };
                    format!("{}{}", body, a.meta.text())
                })
                .collect();
            s.push_str(&alts.join("\n    | "));
            s.push_str(";\n");
        }
        s.push_str("terminals\n");
        for t in &self.terms {
            s.push_str(&format!("{}: '{}'{};\n", t.name, esc(lit(t)), t.meta.text()));
        }
        s
    }

    fn sym_name(&self, s: &Sym) -> String {
        match s {
            Sym::T(t) => self.terms[*t].name.clone(),
            Sym::N(n) => self.rules[*n].name.clone(),
        }
    }

    /// Documented expansion as a plain abstract grammar (helpers appended after the user rules).
    pub fn desugar(&self) -> AG {
        let mut rules: Vec<Rule> = self.rules.iter().map(|r| Rule { name: r.name.clone(), alts: vec![], meta: Meta::default() }).collect();
        let mut helpers: BTreeMap<(Sym, char, Option<usize>), usize> = BTreeMap::new();
        let nuser = self.rules.len();
        for (ri, r) in self.rules.iter().enumerate() {
            for a in &r.alts {
                let mut syms = vec![];
                for it in &a.items {
                    match &it.rep {
                        None => syms.push(it.sym),
                        Some((op, sep)) => {
                            let one = |rules: &mut Vec<Rule>, helpers: &mut BTreeMap<(Sym, char, Option<usize>), usize>| -> usize {
                                if let Some(i) = helpers.get(&(it.sym, '+', *sep)) {
                                    return *i;
                                }
                                let i = rules.len();
                                let mut rec = vec![Sym::N(i)];
                                if let Some(sp) = sep {
                                    rec.push(Sym::T(*sp));
                                }
                                rec.push(it.sym);
                                rules.push(Rule { name: format!("H{}", i), alts: vec![Alt { syms: rec, meta: Meta::default() }, Alt { syms: vec![it.sym], meta: Meta::default() }], meta: Meta::default() });
                                helpers.insert((it.sym, '+', *sep), i);
                                i
                            };
                            let h = match op {
                                '+' => one(&mut rules, &mut helpers),
                                '*' => {
                                    if let Some(i) = helpers.get(&(it.sym, '*', *sep)) {
                                        *i
                                    } else {
                                        let o = one(&mut rules, &mut helpers);
                                        let i = rules.len();
                                        rules.push(Rule { name: format!("H{}", i), alts: vec![Alt { syms: vec![Sym::N(o)], meta: Meta::default() }, Alt::default()], meta: Meta::default() });
                                        helpers.insert((it.sym, '*', *sep), i);
                                        i
                                    }
                                }
                                _ => {
                                    if let Some(i) = helpers.get(&(it.sym, '?', None)) {
                                        *i
                                    } else {
                                        let i = rules.len();
                                        rules.push(Rule { name: format!("H{}", i), alts: vec![Alt { syms: vec![it.sym], meta: Meta::default() }, Alt::default()], meta: Meta::default() });
                                        helpers.insert((it.sym, '?', None), i);
                                        i
                                    }
                                }
                            };
                            syms.push(Sym::N(h));
                        }
                    }
                }
                rules[ri].alts.push(Alt { syms, meta: Meta::default() });
            }
        }
        let _ = nuser;
        AG { terms: self.terms.iter().map(|t| Term { meta: Meta::default(), ..t.clone() }).collect(), rules }
    }

    pub fn to_json(&self) -> Value {
        let meta = |m: &Meta| json!({"prio": m.prio, "assoc": m.assoc.map(|a| a.kw()), "nops": m.nops, "nopse": m.nopse, "kind": m.kind, "user": m.user});
        json!({
            "terms": self.terms.iter().map(|t| json!({"name": t.name, "lit": lit(t), "meta": meta(&t.meta)})).collect::<Vec<_>>(),
            "rules": self.rules.iter().map(|r| json!({"name": r.name, "vec": r.vec_annotation, "meta": meta(&r.meta), "alts": r.alts.iter().map(|a| json!({"meta": meta(&a.meta), "empties": a.empties,
                "items": a.items.iter().map(|it| json!({"t": if let Sym::T(t) = it.sym { Some(t) } else { None }, "n": if let Sym::N(n) = it.sym { Some(n) } else { None },
                    "inline": it.inline, "assign": it.assign.as_ref().map(|(n, b)| json!([n, b])), "rep": it.rep.map(|(o, s)| json!([o.to_string(), s]))})).collect::<Vec<_>>()})).collect::<Vec<_>>()})).collect::<Vec<_>>(),
        })
    }

    pub fn from_json(v: &Value) -> SG {
        let meta = |m: &Value| {
            let a = AG::from_json(&json!({"terms": [], "rules": [{"name": "x", "meta": m, "alts": []}]}));
            a.rules[0].meta.clone()
        };
        SG {
            terms: v["terms"].as_array().unwrap().iter().map(|t| Term { name: t["name"].as_str().unwrap().into(), rec: Rec::Lit(t["lit"].as_str().unwrap().into()), meta: meta(&t["meta"]) }).collect(),
            rules: v["rules"]
                .as_array()
                .unwrap()
                .iter()
                .map(|r| SRule {
                    name: r["name"].as_str().unwrap().into(),
                    vec_annotation: r["vec"].as_bool().unwrap(),
                    meta: meta(&r["meta"]),
                    alts: r["alts"]
                        .as_array()
                        .unwrap()
                        .iter()
                        .map(|a| SAlt {
                            meta: meta(&a["meta"]),
                            empties: a["empties"].as_array().map(|v| v.iter().map(|e| (e[0].as_u64().unwrap() as usize, e[1].as_u64().unwrap() as u8)).collect()).unwrap_or_default(),
                            items: a["items"]
                                .as_array()
                                .unwrap()
                                .iter()
                                .map(|it| SItem {
                                    sym: if let Some(t) = it["t"].as_u64() { Sym::T(t as usize) } else { Sym::N(it["n"].as_u64().unwrap() as usize) },
                                    inline: it["inline"].as_bool().unwrap(),
                                    assign: it["assign"].as_array().map(|x| (x[0].as_str().unwrap().to_string(), x[1].as_bool().unwrap())),
                                    rep: it["rep"].as_array().map(|x| (x[0].as_str().unwrap().chars().next().unwrap(), x[1].as_u64().map(|s| s as usize))),
                                })
                                .collect(),
                        })
                        .collect(),
                })
                .collect(),
        }
    }
}

const KINDS: [&str; 6] = ["Add", "Sub", "Call", "Neg", "Item", "Pair"];
const ANAMES: [&str; 8] = ["left", "right", "name", "value", "first", "rest", "x", "y"];
// left/right are keywords of the meta-data language only; they are legal assignment names? They are
// tokens `left`/`right` of the grammar language, so they are avoided as names.
const SAFE_ANAMES: [&str; 6] = ["name", "value", "first", "rest", "xs", "ys"];

pub fn rand_meta(rng: &mut Rng, level: u8) -> Meta {
    let mut m = Meta::default();
    let p = if level == 0 { 0.25 } else { 0.35 };
    if rng.chance(p) {
        m.prio = Some(*rng.pick(&[1u32, 5, 10, 10, 15, 20, 99]));
    }
    if rng.chance(p) {
        m.assoc = Some(*rng.pick(&[Assoc::Left, Assoc::Right, Assoc::Reduce, Assoc::Shift]));
    }
    if rng.chance(0.15) {
        m.nops = true;
    }
    if rng.chance(0.15) {
        m.nopse = true;
    }
    if level == 1 && rng.chance(0.25) {
        m.kind = Some(rng.pick(&KINDS).to_string());
    }
    if rng.chance(0.15) {
        let k = *rng.pick(&["weight", "doc", "flag"]);
        let v = match k {
            "weight" => rng.range(0, 500).to_string(),
            "doc" => format!("'{}'", rng.pick(&["x y", "hello", "a-b"])),
            _ => rng.pick(&["true", "false"]).to_string(),
        };
        m.user.push((k.to_string(), v));
    }
    m
}

pub fn gen_sg(rng: &mut Rng) -> SG {
    let _ = ANAMES;
    let nt = rng.range(1, 4);
    let tt = rng.range(2, 4);
    let mut terms: Vec<Term> = (0..tt).map(lit_term).collect();
    if rng.chance(0.15) {
        // a string recogniser that reads like the *name* of another terminal: `tb: 'ta';` - an inline 'ta' is tb
        let k = rng.below(tt);
        let j = (k + 1 + rng.below(tt - 1)) % tt;
        let other = terms[j].name.clone();
        terms[k].rec = Rec::Lit(other);
    }
    if rng.chance(0.1) {
        // string recognisers that need escapes: a quote, a backslash
        let k = rng.below(tt);
        let l = *rng.pick(&["'", "\\", "a'", "x'y", "''"]);
        if !terms.iter().any(|t| matches!(&t.rec, Rec::Lit(x) if x == l)) {
            terms[k].rec = Rec::Lit(l.to_string());
        }
    }
    for t in &mut terms {
        if rng.chance(0.2) {
            t.meta.prio = Some(*rng.pick(&[5u32, 15]));
        }
        if rng.chance(0.2) {
            t.meta.assoc = Some(*rng.pick(&[Assoc::Left, Assoc::Right, Assoc::Reduce, Assoc::Shift]));
        }
    }
    // one separator setting per symbol (fence of the known finding: helper names ignore the separator)
    let mut sep_of: BTreeMap<Sym, Option<usize>> = BTreeMap::new();
    let mut rules = vec![];
    for i in 0..nt {
        let na = rng.range(1, 3);
        let mut alts: Vec<SAlt> = vec![];
        let mut kinds_used: Vec<String> = vec![];
        for _ in 0..na {
            let len = if rng.chance(0.12) { 0 } else { rng.range(1, 3) };
            let mut used: Vec<String> = vec![];
            let items: Vec<SItem> = (0..len)
                .map(|_| {
                    let sym = if rng.chance(0.6) { Sym::T(rng.below(tt)) } else { Sym::N(rng.below(nt)) };
                    let rep = if rng.chance(0.35) {
                        let op = *rng.pick(&['?', '*', '+']);
                        let sep = if op == '?' {
                            None
                        } else {
                            *sep_of.entry(sym).or_insert_with(|| if rng.chance(0.3) { Some(rng.below(tt)) } else { None })
                        };
                        Some((op, sep))
                    } else {
                        None
                    };
                    let assign = if rng.chance(0.25) {
                        let n = rng.pick(&SAFE_ANAMES).to_string();
                        if used.contains(&n) {
                            None
                        } else {
                            used.push(n.clone());
                            Some((n, rng.chance(0.3)))
                        }
                    } else {
                        None
                    };
                    SItem { sym, inline: matches!(sym, Sym::T(_)) && rng.chance(0.3), assign, rep }
                })
                .collect();
            if alts.iter().any(|a| a.items == items) {
                continue;
            }
            let mut meta = rand_meta(rng, 1);
            if let Some(k) = &meta.kind {
                if kinds_used.contains(k) {
                    meta.kind = None;
                } else {
                    kinds_used.push(k.clone());
                }
            }
            let mut empties = vec![];
            if !items.is_empty() && rng.chance(0.1) {
                for _ in 0..rng.range(1, 2) {
                    empties.push((rng.below(items.len() + 1), rng.below(3) as u8));
                }
                empties.sort();
            }
            alts.push(SAlt { items, meta, empties });
        }
        rules.push(SRule { name: NNAMES[i].to_string(), vec_annotation: false, meta: if rng.chance(0.4) { rand_meta(rng, 0) } else { Meta::default() }, alts });
    }
    let mut g = SG { terms, rules };
    if rng.chance(0.08) {
        // ordinary names that differ from the built-in ones in case only
        if g.rules.len() >= 2 && rng.chance(0.6) {
            let k = rng.range(1, g.rules.len() - 1);
            let nm = *rng.pick(&["Empty", "empty", "Stop", "stop", "Aug", "Terminals", "eMPTY"]);
            if !g.rules.iter().any(|r| r.name == nm) {
                g.rules[k].name = nm.to_string();
            }
        } else {
            let k = rng.below(g.terms.len());
            let nm = *rng.pick(&["empty", "Empty", "stop", "Stop", "augl"]);
            if !g.terms.iter().any(|t| t.name == nm) {
                g.terms[k].name = nm.to_string();
            }
        }
    }
    if g.rules.len() >= 3 && rng.chance(0.05) {
        // a user rule that carries the name of a sugar helper of another symbol (`A1` next to `A+`)
        let mut helper_names: Vec<(String, Sym)> = vec![];
        for r in &g.rules {
            for a in &r.alts {
                for it in &a.items {
                    if let Some((op, _)) = it.rep {
                        let base = g.sym_name(&it.sym);
                        helper_names.push((format!("{}{}", base, match op { '+' => "1", '*' => "0", _ => "Opt" }), it.sym));
                    }
                }
            }
        }
        if !helper_names.is_empty() {
            let (h, base) = rng.pick(&helper_names).clone();
            let cand: Vec<usize> = (1..g.rules.len()).filter(|i| Sym::N(*i) != base).collect();
            if !cand.is_empty() && !g.rules.iter().any(|r| r.name == h) {
                let k = *rng.pick(&cand);
                g.rules[k].name = h;
            }
        }
    }
    // a rule that carries the name of a terminal of the same grammar (references are resolved to terminals first);
    // chosen by the hash of the text, the PRNG stream is not touched
    let h = fnv(&g.text());
    if h % 25 == 3 && !g.terms.is_empty() {
        let k = (h / 25) as usize % g.rules.len();
        let t = (h / 1000) as usize % g.terms.len();
        let nm = g.terms[t].name.clone();
        if !g.rules.iter().any(|r| r.name == nm) {
            g.rules[k].name = nm;
        }
    }
    g
}

fn assoc_code(a: Option<Assoc>) -> u8 {
    match a {
        None => 0,
        Some(x) if x.is_reduce() => 1,
        Some(_) => 2,
    }
}

/// Structural comparison of the dump with the abstract grammar.
pub fn structural(g: &SG, d: &Dump) -> Vec<String> {
    let mut errs = vec![];
    let gr = &d.grammar;
    let nterm = gr.terminals.len();
    let sym_name = |s: usize| if s < nterm { gr.terminals[s].name.clone() } else { gr.nonterminals[s - nterm].name.clone() };
    // terminals: STOP + declared, in order, with their recognisers and meta
    if gr.terminals.len() != g.terms.len() + 1 || gr.terminals[0].name != "STOP" {
        errs.push(format!("terminals {:?} != STOP + declared", gr.terminals.iter().map(|t| t.name.clone()).collect::<Vec<_>>()));
        return errs;
    }
    for (i, t) in g.terms.iter().enumerate() {
        let dt = &gr.terminals[i + 1];
        if dt.name != t.name || dt.recognizer != rustemo_compiler::verif::VRecognizer::Str(lit(t).to_string()) {
            errs.push(format!("terminal #{}: {} {:?} but declared {} '{}'", i + 1, dt.name, dt.recognizer, t.name, lit(t)));
        }
        if dt.prio != t.meta.prio.unwrap_or(10) || dt.assoc != assoc_code(t.meta.assoc) {
            errs.push(format!("terminal {}: priority {} associativity {} but written {:?} {:?}", t.name, dt.prio, dt.assoc, t.meta.prio, t.meta.assoc.map(|a| a.kw())));
        }
    }
    if sym_name(gr.start_index) != g.rules[0].name {
        errs.push(format!("start symbol {} but the first rule is {}", sym_name(gr.start_index), g.rules[0].name));
    }
    // AUG: start
    let aug_nt = gr.augmented_index - nterm;
    let aug: Vec<_> = gr.productions.iter().filter(|p| p.nonterminal == aug_nt).collect();
    if aug.len() != 1 || aug[0].rhs.len() != 1 || aug[0].rhs[0].symbol != gr.start_index {
        errs.push("augmented production is not AUG: <start>".into());
    }
    let mut helper_of: BTreeMap<(Sym, char, Option<usize>), usize> = BTreeMap::new(); // -> dump nonterminal index
    let mut helper_nts: std::collections::BTreeSet<usize> = Default::default();
    let mut expected_prod_count = 1;
    for r in &g.rules {
        let Some(nti) = gr.nonterminals.iter().position(|n| n.name == r.name) else {
            errs.push(format!("rule {} has no non-terminal", r.name));
            continue;
        };
        let prods: Vec<_> = gr.productions.iter().filter(|p| p.nonterminal == nti).collect();
        if prods.len() != r.alts.len() {
            errs.push(format!("rule {} has {} alternatives but {} productions", r.name, r.alts.len(), prods.len()));
            continue;
        }
        if gr.nonterminals[nti].productions.len() != r.alts.len() {
            errs.push(format!("non-terminal {} lists {} productions", r.name, gr.nonterminals[nti].productions.len()));
        }
        let want_ann = if r.vec_annotation { Some("vec".to_string()) } else { None };
        if gr.nonterminals[nti].annotation != want_ann {
            errs.push(format!("rule {} annotation {:?}", r.name, gr.nonterminals[nti].annotation));
        }
        expected_prod_count += r.alts.len();
        for (ai, a) in r.alts.iter().enumerate() {
            let Some(p) = prods.iter().find(|p| p.ntidx == ai) else {
                errs.push(format!("rule {} has no production with index {}", r.name, ai));
                continue;
            };
            let tag = format!("{} alternative #{}", r.name, ai + 1);
            if p.rhs.len() != a.items.len() {
                errs.push(format!("{}: {} symbols written, production has {} ({})", tag, a.items.len(), p.rhs.len(), p.rhs.iter().map(|x| sym_name(x.symbol)).collect::<Vec<_>>().join(" ")));
                continue;
            }
            for (k, (it, da)) in a.items.iter().zip(p.rhs.iter()).enumerate() {
                let want_assign = it.assign.clone();
                let got_assign = da.name.clone().map(|n| (n, da.is_bool));
                if want_assign != got_assign {
                    errs.push(format!("{} symbol #{}: assignment {:?} but written {:?}", tag, k + 1, got_assign, want_assign));
                }
                match &it.rep {
                    None => {
                        if sym_name(da.symbol) != g.sym_name(&it.sym) {
                            errs.push(format!("{} symbol #{}: {} but written {}", tag, k + 1, sym_name(da.symbol), g.sym_name(&it.sym)));
                        }
                    }
                    Some((op, sep)) => {
                        if da.symbol < nterm {
                            errs.push(format!("{} symbol #{}: sugar resolved to a terminal", tag, k + 1));
                            continue;
                        }
                        let h = da.symbol - nterm;
                        let key = (it.sym, *op, if *op == '?' { None } else { *sep });
                        match helper_of.get(&key) {
                            Some(prev) => {
                                if *prev != h {
                                    errs.push(format!("{} symbol #{}: identical sugar uses got two helper rules ({} and {})", tag, k + 1, gr.nonterminals[*prev].name, gr.nonterminals[h].name));
                                }
                            }
                            None => {
                                if helper_of.values().any(|x| *x == h) {
                                    errs.push(format!("{} symbol #{}: helper rule {} is shared by different sugar uses", tag, k + 1, gr.nonterminals[h].name));
                                }
                                helper_of.insert(key, h);
                            }
                        }
                        // shape of the helper = documented expansion
                        let base = g.sym_name(&it.sym);
                        let hp: Vec<Vec<String>> = {
                            let mut v: Vec<_> = gr.productions.iter().filter(|p| p.nonterminal == h).collect();
                            v.sort_by_key(|p| p.ntidx);
                            v.iter().map(|p| p.rhs.iter().map(|x| sym_name(x.symbol)).collect()).collect()
                        };
                        let hname = gr.nonterminals[h].name.clone();
                        helper_nts.insert(h);
                        let one_shape = |name: &str| -> Vec<Vec<String>> {
                            let mut rec = vec![name.to_string()];
                            if let Some(sp) = sep {
                                rec.push(g.terms[*sp].name.clone());
                            }
                            rec.push(base.clone());
                            vec![rec, vec![base.clone()]]
                        };
                        match op {
                            '?' => {
                                if hp != vec![vec![base.clone()], vec![]] {
                                    errs.push(format!("{}: helper {} of `{}?` is {:?}, documented `{}Opt: {} | EMPTY`", tag, hname, base, hp, base, base));
                                }
                                if hname != format!("{}Opt", base) {
                                    errs.push(format!("{}: helper of `{}?` is named {}", tag, base, hname));
                                }
                            }
                            '+' => {
                                if hp != one_shape(&hname) {
                                    errs.push(format!("{}: helper {} of `{}+` is {:?}", tag, hname, base, hp));
                                }
                                if sep.is_none() && hname != format!("{}1", base) {
                                    errs.push(format!("{}: helper of `{}+` is named {}", tag, base, hname));
                                }
                                if gr.nonterminals[h].annotation.as_deref() != Some("vec") {
                                    errs.push(format!("{}: helper {} lacks the @vec annotation", tag, hname));
                                }
                            }
                            _ => {
                                // A0: A1 {nops} | EMPTY
                                if hp.len() != 2 || hp[0].len() != 1 || !hp[1].is_empty() {
                                    errs.push(format!("{}: helper {} of `{}*` is {:?}", tag, hname, base, hp));
                                } else {
                                    let one = gr.nonterminals.iter().position(|n| n.name == hp[0][0]);
                                    match one {
                                        None => errs.push(format!("{}: helper {} refers to a terminal", tag, hname)),
                                        Some(o) => {
                                            helper_nts.insert(o);
                                            let mut v: Vec<_> = gr.productions.iter().filter(|p| p.nonterminal == o).collect();
                                            v.sort_by_key(|p| p.ntidx);
                                            let op_: Vec<Vec<String>> = v.iter().map(|p| p.rhs.iter().map(|x| sym_name(x.symbol)).collect()).collect();
                                            if op_ != one_shape(&hp[0][0]) {
                                                errs.push(format!("{}: one-or-more helper {} of `{}*` is {:?}", tag, hp[0][0], base, op_));
                                            }
                                            // the '+' helper is shared with uses of `A+`
                                            let k1 = (it.sym, '+', *sep);
                                            match helper_of.get(&k1) {
                                                Some(prev) if *prev != o => errs.push(format!("{}: `{}*` and `{}+` do not share the one-or-more helper", tag, base, base)),
                                                None => {
                                                    helper_of.insert(k1, o);
                                                }
                                                _ => {}
                                            }
                                        }
                                    }
                                    // (the book writes `A0: A1 {nops}`; the flag is not set by the compiler. It does not
                                    // change the language of the expansion, which is what C09 states, so it is not judged.)
                                }
                                if sep.is_none() && hname != format!("{}0", base) {
                                    errs.push(format!("{}: helper of `{}*` is named {}", tag, base, hname));
                                }
                            }
                        }
                    }
                }
            }
            // effective meta-data: production's own, else the rule's
            let eff_prio = a.meta.prio.or(r.meta.prio).unwrap_or(10);
            let eff_assoc = assoc_code(a.meta.assoc.or(r.meta.assoc));
            let eff_nops = a.meta.nops || r.meta.nops;
            let eff_nopse = a.meta.nopse || r.meta.nopse;
            let eff_kind = a.meta.kind.clone().or(r.meta.kind.clone());
            if p.prio != eff_prio {
                errs.push(format!("{}: priority {} but written {:?} (rule {:?})", tag, p.prio, a.meta.prio, r.meta.prio));
            }
            if p.assoc != eff_assoc {
                errs.push(format!("{}: associativity {} but production says {:?} and rule says {:?} (0 none, 1 left/reduce, 2 right/shift)", tag, p.assoc, a.meta.assoc.map(|x| x.kw()), r.meta.assoc.map(|x| x.kw())));
            }
            if p.nops != eff_nops || p.nopse != eff_nopse {
                errs.push(format!("{}: nops/nopse {}/{} but written {}/{}", tag, p.nops, p.nopse, eff_nops, eff_nopse));
            }
            if p.kind != eff_kind {
                errs.push(format!("{}: kind {:?} but written {:?}", tag, p.kind, eff_kind));
            }
            let mut eff_user: BTreeMap<String, String> = BTreeMap::new();
            for (k, v) in r.meta.user.iter().chain(a.meta.user.iter()) {
                eff_user.insert(k.clone(), v.trim_matches('\'').to_string());
            }
            let got_user: BTreeMap<String, String> = p.meta.iter().cloned().collect();
            if got_user != eff_user {
                errs.push(format!("{}: user meta-data {:?} but written {:?}", tag, got_user, eff_user));
            }
        }
    }
    // nothing else: AUG + user productions + 2 per helper rule
    let total = expected_prod_count + 2 * helper_nts.len();
    if errs.is_empty() && gr.productions.len() != total {
        errs.push(format!("{} productions in the analysed grammar, {} expected (AUG + alternatives + 2 per helper rule)", gr.productions.len(), total));
    }
    let nts_expected = 2 + g.rules.len() + helper_nts.len(); // EMPTY, AUG
    if errs.is_empty() && gr.nonterminals.len() != nts_expected {
        errs.push(format!("{} non-terminals in the analysed grammar, {} expected", gr.nonterminals.len(), nts_expected));
    }
    errs
}

pub fn run_case(g: &SG, wd: &Workdir, rep: &mut Rep, maxlen: usize, only_input: Option<&str>) {
    let text = g.text();
    let case0 = |extra: Value| json!({"grammar": text, "sg": g.to_json(), "extra": extra});
    let sig = |k: &str| format!("{}:{}", k, fnv(&text));
    crate::rep::watchdog::set(|| case0(json!(null)).to_string());
    rep.count("grammars", 1);
    // GLR: conflicts do not matter, the grammar part is the same for LR
    let c = wd.compile(&text, &SetSpec::glr());
    let Some(d) = &c.dump else {
        if std::env::var("VH_DEBUG").is_ok() {
            eprintln!("REJECTED {}\n{}", c.outcome.show(), text);
        }
        let msg = c.outcome.show();
        if msg.contains("Expected ") && msg.contains("Syntax error") {
            // the generator only writes documented syntax: a syntax error means the text the user wrote is not the text analysed
            rep.violation("C09", &sig("syntax"), &format!("syntactically valid grammar text is rejected with a syntax error: {}", msg.replace(&wd.dir.to_string_lossy().to_string(), "").chars().take(400).collect::<String>()), case0(json!(null)));
        } else if msg.contains("Unexisting symbol") {
            // every symbol the generator references is a rule or terminal of the same text
            rep.violation("C09", &sig("unexisting"), &format!("a grammar that defines every symbol it uses is rejected for a reference the user did not write: {}", msg.replace(&wd.dir.to_string_lossy().to_string(), "").chars().take(400).collect::<String>()), case0(json!(null)));
        } else if c.outcome.is_panic() {
            rep.count("compiler_panics_not_judged_here", 1);
        } else {
            // a user symbol named like a sugar helper may be refused (the alternative is to merge it into the helper)
            let collision = msg.contains("has the name of the rule created for a repetition") || msg.contains("has the name of a terminal");
            rep.count(if msg.contains("Infinite recursion") { "rejected:infinite-recursion" } else if msg.contains("First set empty") { "rejected:unproductive" } else if collision { "rejected:helper-name-collision" } else { "rejected:other" }, 1);
            if !(msg.contains("Infinite recursion") || msg.contains("First set empty") || collision) {
                rep.harness_error(&format!("unexpected rejection: {}", msg), case0(json!(null)));
            }
        }
        return;
    };
    rep.count("evaluations", 1);
    let errs = structural(g, d);
    let has_sugar = g.rules.iter().any(|r| r.alts.iter().any(|a| a.items.iter().any(|i| i.rep.is_some())));
    let has_inherit = g.rules.iter().any(|r| !r.meta.is_empty());
    if has_sugar {
        rep.distinct("with_sugar", fnv(&text));
    }
    if has_inherit {
        rep.distinct("with_rule_meta", fnv(&text));
    }
    if has_sugar || has_inherit || g.rules.iter().any(|r| r.alts.iter().any(|a| a.items.iter().any(|i| i.inline || i.assign.is_some()))) {
        rep.distinct("nontrivial", fnv(&text));
    }
    if !errs.is_empty() {
        rep.violation("C09", &sig("structure"), &format!("analysed grammar differs from the written one: {}", errs[..errs.len().min(4)].join(" | ")), case0(json!({"n": errs.len()})));
        return;
    }
    // language of the sugar = language of the documented expansion; meta-data is stripped for this
    // part because priorities/associativity legitimately remove parses even in GLR mode
    let mut plain = g.clone();
    for t in &mut plain.terms {
        t.meta = Meta::default();
    }
    for r in &mut plain.rules {
        r.meta = Meta::default();
        for a in &mut r.alts {
            a.meta = Meta::default();
        }
    }
    let c = wd.compile(&plain.text(), &SetSpec::glr());
    let (true, Some(d)) = (c.outcome.is_ok(), &c.dump) else { return };
    let ag = g.desugar();
    if !ag.reduced() || !ag.glr_scope() {
        rep.count("language_not_compared_out_of_glr_scope", 1);
        return;
    }
    let Ok(dy) = Dyn::new(d, dynp::Cfg::glr()) else { return };
    let l = len_for(ag.terms.len(), maxlen, 1500);
    let words: Vec<Vec<usize>> = match only_input {
        Some(inp) => vec![inp.split_whitespace().map(|w| ag.terms.iter().position(|t| lit(t) == w).unwrap()).collect()],
        None => all_strings(ag.terms.len(), l),
    };
    rep.count("language_grammars", 1);
    for w in words {
        let (input, _) = render_plain(&ag, &w);
        let (member, _) = earley(&ag, &w);
        dynp::set_step_limit(3_000_000);
        rep.count("language_inputs", 1);
        match guarded(|| dy.glr_parse(&input).is_ok()) {
            Ok(acc) => {
                if acc != member {
                    rep.violation("C09", &format!("language:{}:{}", fnv(&text), fnv(&input)), &format!("input {:?} is {} by the parser but {} by the documented expansion of the sugar", input, if acc { "accepted" } else { "rejected" }, if member { "a sentence" } else { "no sentence" }), json!({"grammar": text, "sg": g.to_json(), "input": input}));
                    break;
                }
            }
            Err(pm) => {
                rep.violation("C09", &format!("language-panic:{}:{}", fnv(&text), fnv(&input)), &format!("parser panicked on {:?}: {:?}", input, pm), json!({"grammar": text, "sg": g.to_json(), "input": input}));
                break;
            }
        }
    }
    rep.sample(json!({"grammar": text, "documented_expansion": ag.text()}));
}

pub fn main(a: &Args) {
    let mut rep = Rep::new(a.out.as_deref());
    let wd = Workdir::new("c09");
    if let Some(path) = &a.replay {
        let v: Value = serde_json::from_str(&std::fs::read_to_string(path).expect("read replay")).expect("json");
        let g = SG::from_json(&v["case"]["sg"]);
        run_case(&g, &wd, &mut rep, 6, v["case"]["input"].as_str());
        rep.finish();
        return;
    }
    let (n, maxlen) = if a.thorough { (a.n.unwrap_or(3000), 7) } else { (a.n.unwrap_or(200), 6) };
    let mut rng = a.rng(9);
    let mut i = 0;
    while i < n && rep.elapsed() < a.max_s {
        i += 1;
        let g = gen_sg(&mut rng);
        run_case(&g, &wd, &mut rep, maxlen, None);
    }
    rep.finish();
}
