//! C04: the dumped table against an independently built canonical LR(1)
//! collection, via a simulation relation checked completely per grammar.
use crate::ag::*;
use crate::comp::*;
use crate::enumr::*;
use crate::gens::*;
use crate::rep::{Args, Rep};
use rustemo_compiler::verif::{Dump, VAction};
use serde_json::json;
use std::collections::{BTreeMap, BTreeSet, HashMap};

type Item = (usize, usize, usize); // prod, pos, lookahead terminal
type LState = BTreeSet<Item>;

pub struct G {
    pub nterm: usize,
    pub prods: Vec<(usize, Vec<usize>)>,
    pub by_nt: HashMap<usize, Vec<usize>>,
    pub nullable: Vec<bool>,
    pub first: Vec<BTreeSet<usize>>,
}

/// Symbol-indexed grammar taken from the dump (terminals first, then non-terminals).
pub fn mk(d: &Dump) -> G {
    let nterm = d.grammar.terminals.len();
    let prods: Vec<(usize, Vec<usize>)> = d.grammar.productions.iter().map(|p| (p.nonterminal + nterm, p.rhs.iter().map(|a| a.symbol).collect())).collect();
    let nsym = nterm + d.grammar.nonterminals.len();
    let mut by_nt: HashMap<usize, Vec<usize>> = HashMap::new();
    for (i, p) in prods.iter().enumerate() {
        by_nt.entry(p.0).or_default().push(i);
    }
    let mut nullable = vec![false; nsym];
    let mut first: Vec<BTreeSet<usize>> = vec![BTreeSet::new(); nsym];
    for (t, f) in first.iter_mut().enumerate().take(nterm) {
        f.insert(t);
    }
    loop {
        let mut ch = false;
        for (l, r) in &prods {
            let mut alln = true;
            for s in r {
                let f: Vec<usize> = first[*s].iter().cloned().collect();
                for x in f {
                    if first[*l].insert(x) {
                        ch = true;
                    }
                }
                if !nullable[*s] {
                    alln = false;
                    break;
                }
            }
            if alln && !nullable[*l] {
                nullable[*l] = true;
                ch = true;
            }
        }
        if !ch {
            break;
        }
    }
    G { nterm, prods, by_nt, nullable, first }
}

fn closure(g: &G, st: &mut LState) {
    let mut work: Vec<Item> = st.iter().cloned().collect();
    while let Some((p, pos, la)) = work.pop() {
        let rhs = &g.prods[p].1;
        if pos < rhs.len() && rhs[pos] >= g.nterm {
            let mut las = BTreeSet::new();
            let mut alln = true;
            for s in &rhs[pos + 1..] {
                las.extend(g.first[*s].iter().cloned());
                if !g.nullable[*s] {
                    alln = false;
                    break;
                }
            }
            if alln {
                las.insert(la);
            }
            for q in g.by_nt.get(&rhs[pos]).cloned().unwrap_or_default() {
                for l in &las {
                    let it = (q, 0, *l);
                    if st.insert(it) {
                        work.push(it);
                    }
                }
            }
        }
    }
}

pub struct Canon {
    pub states: Vec<LState>,
    pub trans: Vec<BTreeMap<usize, usize>>,
}

/// canonical LR(1) collection from the item (start_prod, 0, la0); None if it exceeds the cap
pub fn canonical(g: &G, start_prod: usize, cap: usize) -> Option<Canon> {
    let mut s0 = LState::new();
    s0.insert((start_prod, 0, 0));
    closure(g, &mut s0);
    let mut states = vec![s0.clone()];
    let mut idx: HashMap<LState, usize> = HashMap::new();
    idx.insert(s0, 0);
    let mut trans: Vec<BTreeMap<usize, usize>> = vec![];
    let mut i = 0;
    while i < states.len() {
        if states.len() > cap {
            return None;
        }
        let st = states[i].clone();
        let mut by_sym: BTreeMap<usize, LState> = BTreeMap::new();
        for (p, pos, la) in &st {
            let rhs = &g.prods[*p].1;
            if *pos < rhs.len() {
                by_sym.entry(rhs[*pos]).or_default().insert((*p, pos + 1, *la));
            }
        }
        let mut tr = BTreeMap::new();
        for (sym, mut ns) in by_sym {
            closure(g, &mut ns);
            let j = if let Some(&j) = idx.get(&ns) {
                j
            } else {
                idx.insert(ns.clone(), states.len());
                states.push(ns);
                states.len() - 1
            };
            tr.insert(sym, j);
        }
        trans.push(tr);
        i += 1;
    }
    Some(Canon { states, trans })
}

/// Is the LALR(1) automaton obtained by merging same-core canonical states conflict-free?
pub fn lalr_conflict_free(g: &G, c: &Canon, aug_prod: usize) -> bool {
    let mut merged: BTreeMap<BTreeSet<(usize, usize)>, BTreeMap<(usize, usize), BTreeSet<usize>>> = BTreeMap::new();
    for st in &c.states {
        let core: BTreeSet<(usize, usize)> = st.iter().map(|(p, pos, _)| (*p, *pos)).collect();
        let e = merged.entry(core).or_default();
        for (p, pos, la) in st {
            e.entry((*p, *pos)).or_default().insert(*la);
        }
    }
    for items in merged.values() {
        let mut shift_terms: BTreeSet<usize> = BTreeSet::new();
        let mut reduce_las: Vec<&BTreeSet<usize>> = vec![];
        for ((p, pos), las) in items {
            let rhs = &g.prods[*p].1;
            if *pos < rhs.len() {
                if rhs[*pos] < g.nterm {
                    shift_terms.insert(rhs[*pos]);
                }
            } else if *p != aug_prod {
                reduce_las.push(las);
            } else {
                // completed augmented item: Accept on STOP competes like a shift of STOP
                shift_terms.insert(0);
            }
        }
        for (i, a) in reduce_las.iter().enumerate() {
            if a.iter().any(|t| shift_terms.contains(t)) {
                return false;
            }
            for b in &reduce_las[i + 1..] {
                if a.intersection(b).next().is_some() {
                    return false;
                }
            }
        }
    }
    true
}

pub struct Outcome04 {
    pub errs: Vec<String>,
    pub inconclusive: bool,
    pub table_states_covered: usize,
    pub canonical_states: usize,
    pub pairs: usize,
    pub merged_la_unions: usize, // table states standing for >= 2 canonical states with different look-aheads
}

/// Simulation relation between canonical states and table states starting at
/// (canonical initial, start_state); complete comparison of cores, transitions,
/// look-aheads and actions.
pub fn check(d: &Dump, g: &G, start_prod: usize, start_state: usize, rn: bool, layout_aug_prods: &[usize]) -> Outcome04 {
    let mut out = Outcome04 { errs: vec![], inconclusive: false, table_states_covered: 0, canonical_states: 0, pairs: 0, merged_la_unions: 0 };
    let Some(canon) = canonical(g, start_prod, 5000) else {
        out.inconclusive = true;
        return out;
    };
    out.canonical_states = canon.states.len();
    let mut pairs: Vec<(usize, usize)> = vec![(0, start_state)];
    let mut seen: BTreeSet<(usize, usize)> = BTreeSet::new();
    seen.insert((0, start_state));
    let mut i = 0;
    while i < pairs.len() {
        if pairs.len() > 40000 {
            out.inconclusive = true;
            return out;
        }
        let (c, t) = pairs[i];
        let Some(ts) = d.table.states.get(t) else {
            out.errs.push(format!("transition into non-existent table state {}", t));
            i += 1;
            continue;
        };
        let tr = &canon.trans[c];
        for (sym, j) in tr {
            let target = if *sym < g.nterm {
                let shifts: Vec<usize> = ts.actions[*sym].iter().filter_map(|a| if let VAction::Shift(s) = a { Some(*s) } else { None }).collect();
                if shifts.len() > 1 {
                    out.errs.push(format!("table state {} has {} shifts on terminal {}", t, shifts.len(), sym));
                }
                shifts.first().cloned()
            } else {
                ts.gotos[*sym - g.nterm]
            };
            // shifting STOP is the accept transition, it has no target state
            if *sym == 0 {
                continue;
            }
            let Some(target) = target else {
                out.errs.push(format!("table state {} lacks the transition on symbol {} that its canonical state has", t, sym));
                continue;
            };
            if seen.insert((*j, target)) {
                pairs.push((*j, target));
            }
        }
        for (term, acts) in ts.actions.iter().enumerate() {
            if acts.iter().any(|a| matches!(a, VAction::Shift(_))) && !tr.contains_key(&term) {
                out.errs.push(format!("table state {} has a shift on terminal {} that no canonical state it stands for has", t, term));
            }
        }
        for (nt, gt) in ts.gotos.iter().enumerate() {
            if gt.is_some() && !tr.contains_key(&(nt + g.nterm)) {
                out.errs.push(format!("table state {} has a goto on non-terminal {} that no canonical state it stands for has", t, nt));
            }
        }
        i += 1;
    }
    out.pairs = pairs.len();
    // per table state: union of look-aheads over the canonical states it stands for
    let mut uni: BTreeMap<usize, BTreeMap<(usize, usize), BTreeSet<usize>>> = BTreeMap::new();
    let mut per_t_canon: BTreeMap<usize, BTreeSet<usize>> = BTreeMap::new();
    for (c, t) in &pairs {
        if *t >= d.table.states.len() {
            continue;
        }
        let e = uni.entry(*t).or_default();
        for (p, pos, la) in &canon.states[*c] {
            e.entry((*p, *pos)).or_default().insert(*la);
        }
        per_t_canon.entry(*t).or_default().insert(*c);
        // same core for every related pair
        let ccore: BTreeSet<(usize, usize)> = canon.states[*c].iter().map(|(p, pos, _)| (*p, *pos)).collect();
        let tcore: BTreeSet<(usize, usize)> = d.table.states[*t].items.iter().map(|it| (it.prod, it.position)).collect();
        if ccore != tcore {
            out.errs.push(format!("table state {} and a canonical state it stands for have different item cores\n   table={:?}\n   canon={:?}", t, tcore, ccore));
        }
    }
    for (t, cs) in &per_t_canon {
        if cs.len() >= 2 {
            let las: BTreeSet<Vec<(usize, usize, usize)>> = cs.iter().map(|c| canon.states[*c].iter().cloned().collect()).collect();
            if las.len() >= 2 {
                out.merged_la_unions += 1;
            }
        }
        let _ = t;
    }
    out.table_states_covered = uni.len();
    for (t, items) in &uni {
        let ts = &d.table.states[*t];
        let titems: BTreeMap<(usize, usize), BTreeSet<usize>> = ts.items.iter().map(|it| ((it.prod, it.position), it.follow.iter().cloned().collect())).collect();
        if titems.len() != ts.items.len() {
            out.errs.push(format!("table state {} lists an item twice", t));
        }
        if &titems != items {
            out.errs.push(format!("table state {}: look-aheads differ from the union over its canonical states\n   table={:?}\n   canon={:?}", t, titems, items));
        }
        let mut exp: Vec<BTreeSet<VAction>> = vec![BTreeSet::new(); g.nterm];
        for ((p, pos), las) in items {
            let rhs = &g.prods[*p].1;
            if *pos < rhs.len() && rhs[*pos] < g.nterm && rhs[*pos] != 0 {
                let sym = rhs[*pos];
                if let Some(s) = ts.actions[sym].iter().find_map(|a| if let VAction::Shift(s) = a { Some(*s) } else { None }) {
                    exp[sym].insert(VAction::Shift(s));
                }
            }
            let tail_nullable = rhs[*pos..].iter().all(|s| *s >= g.nterm && g.nullable[*s]);
            let is_aug = *p == start_prod || layout_aug_prods.contains(p);
            if is_aug {
                // AUG: S . STOP  => Accept on STOP
                if rhs.get(*pos) == Some(&0) || *pos == rhs.len() {
                    exp[0].insert(VAction::Accept);
                }
                continue;
            }
            if *pos == rhs.len() || (rn && tail_nullable) {
                for la in las {
                    exp[*la].insert(VAction::Reduce(*p, *pos));
                }
            }
        }
        for term in 0..g.nterm {
            let got: BTreeSet<VAction> = ts.actions[term].iter().cloned().collect();
            if got != exp[term] {
                out.errs.push(format!("table state {} on terminal {}: actions {:?}, canonical LR(1) prescribes {:?}", t, term, got, exp[term]));
            }
            if got.len() != ts.actions[term].len() {
                out.errs.push(format!("table state {} on terminal {}: duplicate action", t, term));
            }
        }
    }
    out
}

pub struct Full {
    pub errs: Vec<String>,
    pub inconclusive: bool,
    pub split_states: usize,
    pub merged_unions: usize,
    pub rn_entries: usize,
    pub lalr_cf: Option<bool>,
    pub canonical_states: usize,
}

/// Whole-table check: main automaton + layout automaton; every table state must be covered.
pub fn check_dump(d: &Dump, rn: bool) -> Full {
    let g = mk(d);
    let nterm = g.nterm;
    let aug_nt = d.grammar.augmented_index; // symbol index
    let aug_prod = g.prods.iter().position(|p| p.0 == aug_nt).unwrap_or(0);
    let layout = d.grammar.augmented_layout_index.and_then(|s| g.prods.iter().position(|p| p.0 == s));
    let mut errs = vec![];
    let mut inconclusive = false;
    let lay: Vec<usize> = layout.into_iter().collect();
    let o = check(d, &g, aug_prod, 0, rn, &lay);
    inconclusive |= o.inconclusive;
    errs.extend(o.errs);
    let mut covered = o.table_states_covered;
    let mut merged_unions = o.merged_la_unions;
    let canonical_states = o.canonical_states;
    if let (Some(lp), Some(ls)) = (layout, d.table.layout_state) {
        let o2 = check(d, &g, lp, ls, rn, &lay);
        inconclusive |= o2.inconclusive;
        errs.extend(o2.errs.into_iter().map(|e| format!("[layout automaton] {}", e)));
        covered += o2.table_states_covered;
        merged_unions += o2.merged_la_unions;
    } else if layout.is_some() != d.table.layout_state.is_some() {
        errs.push("layout state and AUGL production do not come together".into());
    }
    if !inconclusive && errs.is_empty() && covered != d.table.states.len() {
        errs.push(format!("table has {} states but only {} stand for canonical LR(1) states reachable from the start", d.table.states.len(), covered));
    }
    // RN lengths recomputed from nullability
    if rn {
        match &d.table.production_rn_lengths {
            None => errs.push("RN table without right-nulled lengths".into()),
            Some(v) => {
                for (pi, (_, rhs)) in g.prods.iter().enumerate() {
                    let mut k = rhs.len();
                    while k > 0 && rhs[k - 1] >= nterm && g.nullable[rhs[k - 1]] {
                        k -= 1;
                    }
                    if v.get(pi) != Some(&k) {
                        errs.push(format!("production {} right-nulled length {:?}, expected {}", pi, v.get(pi), k));
                    }
                }
            }
        }
    }
    let mut cores = BTreeSet::new();
    let mut split = 0;
    for st in &d.table.states {
        let c: BTreeSet<(usize, usize)> = st.items.iter().map(|i| (i.prod, i.position)).collect();
        if !cores.insert(c) {
            split += 1;
        }
    }
    let rn_entries = d.table.states.iter().map(|s| s.actions.iter().flatten().filter(|a| matches!(a, VAction::Reduce(p, l) if *l < g.prods[*p].1.len())).count()).sum();
    let lalr_cf = canonical(&g, aug_prod, 5000).map(|c| lalr_conflict_free(&g, &c, aug_prod));
    Full { errs, inconclusive, split_states: split, merged_unions, rn_entries, lalr_cf, canonical_states }
}

fn with_layout(g: &AG, rng: &mut crate::rng::Rng) -> String {
    // append a Layout rule (its own automaton, AUGL) using an extra terminal
    let mut t = g.text();
    let variants = ["Layout: LI | EMPTY;\nLI: LI tw | tw;\n", "Layout: LI;\nLI: tw LI | EMPTY;\n", "Layout: tw | tw tw | EMPTY;\n"];
    let l = variants[rng.below(variants.len())];
    let pos = t.find("terminals\n").unwrap();
    t.insert_str(pos, l);
    t.push_str("tw: 'w';\n");
    t
}

pub fn run_grammar(g: &AG, name: &str, text: &str, wd: &Workdir, rep: &mut Rep, maxlen: usize, judge_language: bool) {
    let agj = g.to_json();
    rep.count("grammars", 1);
    let mut lalr_cf: Option<bool> = None;
    for tt in [0u8, 1, 2] {
        crate::rep::watchdog::set(|| json!({"grammar": text, "table": table_name(tt)}).to_string());
        let spec = SetSpec::raw(tt);
        let c = wd.compile(text, &spec);
        let case = |extra: serde_json::Value| json!({"grammar": text, "ag": agj, "settings": spec.to_json(), "extra": extra});
        let sig = |k: &str| format!("{}:{}:{}", k, table_name(tt), fnv(text));
        let Some(d) = c.dump else {
            // rejected before table construction (e.g. infinite recursion): legitimate diagnostics
            rep.count("rejected_before_table", 1);
            continue;
        };
        if let Outcome::Panic(m) = &c.outcome {
            rep.violation("C04", &sig("panic"), &format!("compiler panicked after building the table: {}", m), case(json!(null)));
            continue;
        }
        rep.count("evaluations", 1);
        let f = check_dump(&d, tt == 2);
        rep.max("max_canonical_states", f.canonical_states as u64);
        rep.count("table_states_compared", d.table.states.len() as u64);
        if f.inconclusive {
            rep.inconclusive("canonical-automaton-cap");
            continue;
        }
        if f.split_states > 0 && tt == 1 {
            rep.distinct("nontrivial", fnv(&format!("split|{}", text)));
            rep.distinct("pager_split", fnv(text));
        }
        if f.merged_unions > 0 {
            rep.distinct("nontrivial", fnv(&format!("merge|{}", text)));
            rep.distinct("lalr_merge_unions", fnv(text));
        }
        if f.rn_entries > 0 {
            rep.distinct("nontrivial", fnv(&format!("rn|{}", text)));
            rep.distinct("rn_entries", fnv(text));
        }
        if !f.errs.is_empty() {
            rep.violation("C04", &sig("table"), &format!("{} table is not the core-preserving compression of canonical LR(1): {}", table_name(tt), f.errs[..f.errs.len().min(3)].join(" | ")), case(json!({"n_errors": f.errs.len()})));
            continue;
        }
        lalr_cf = lalr_cf.or(f.lalr_cf);
        // consequences
        let cf = d.table.states.iter().all(|s| s.actions.iter().all(|a| a.len() <= 1));
        if f.lalr_cf == Some(true) {
            rep.count("lalr1_grammars_x_tables", 1);
            if tt < 2 {
                if !cf {
                    rep.violation("C04", &sig("lalr-conflict"), &format!("grammar is LALR(1) by the reference construction but the {} table has a multi-action cell", table_name(tt)), case(json!(null)));
                }
                let lr = wd.compile(text, &SetSpec::lr(tt));
                if !lr.outcome.is_ok() {
                    rep.violation("C04", &sig("lalr-rejected"), &format!("LALR(1) grammar does not compile in LR mode under {}: {}", table_name(tt), lr.outcome.show()), case(json!(null)));
                }
            } else {
                // RN: no conflict once the right-nulled extras are removed
                let g2 = mk(&d);
                let bad = d.table.states.iter().any(|s| s.actions.iter().any(|a| a.iter().filter(|x| !matches!(x, VAction::Reduce(p, l) if *l < g2.prods[*p].1.len())).count() > 1));
                if bad {
                    rep.violation("C04", &sig("lalr-conflict-rn"), "grammar is LALR(1) but the RN table has a conflict beyond right-nulled entries", case(json!(null)));
                }
            }
        }
        if cf && tt < 2 && judge_language && !g.cyclic() {
            // a grammar that compiles without any disambiguation is unambiguous
            let l = len_for(g.terms.len(), maxlen, 1500);
            for w in all_strings(g.terms.len(), l) {
                let (_, toks) = render_plain(g, &w);
                let lat = Lattice::linear(&toks);
                let cnt = Enum::new(g, &lat).count_all();
                rep.count("unambiguity_strings", 1);
                if cnt > 1 {
                    rep.violation("C04", &sig("ambiguous"), &format!("conflict-free {} table for an ambiguous grammar: {:?} has {} derivation trees", table_name(tt), w, cnt), case(json!({"tokens": w})));
                    break;
                }
            }
        } else if cf && tt < 2 && judge_language && g.cyclic() {
            rep.violation("C04", &sig("ambiguous-cyclic"), "conflict-free table for a cyclic (hence ambiguous) grammar", case(json!(null)));
        }
    }
    rep.sample(json!({"grammar_name": name, "grammar": text, "reference_lalr1_conflict_free": lalr_cf}));
}

pub fn main(a: &Args) {
    let mut rep = Rep::new(a.out.as_deref());
    let wd = Workdir::new("c04");
    if let Some(path) = &a.replay {
        let v: serde_json::Value = serde_json::from_str(&std::fs::read_to_string(path).expect("read replay")).expect("json");
        let g = AG::from_json(&v["case"]["ag"]);
        let text = v["case"]["grammar"].as_str().unwrap().to_string();
        run_grammar(&g, "replay", &text, &wd, &mut rep, 6, !text.contains("Layout"));
        rep.finish();
        return;
    }
    let (n, maxlen) = if a.thorough { (a.n.unwrap_or(2500), 7) } else { (a.n.unwrap_or(120), 5) };
    let mut rng = a.rng(4);
    if a.shard == 0 {
        for (name, g) in corpus() {
            run_grammar(&g, &name, &g.text(), &wd, &mut rep, maxlen, true);
            let t = with_layout(&g, &mut rng);
            run_grammar(&g, &format!("{}+layout", name), &t, &wd, &mut rep, maxlen, false);
        }
    }
    let mut rng_td = a.rng(4243);
    let mut i = 0;
    while i < n && rep.elapsed() < a.max_s {
        let o = match i % 6 {
            4 => BnfOpts { max_nt: 5, max_t: 4, max_alts: 3, max_len: 4, p_empty: 0.15 },
            5 => BnfOpts { max_nt: 6, max_t: 5, max_alts: 4, max_len: 4, p_empty: 0.2 },
            _ => BnfOpts::default(),
        };
        if i % 10 == 6 {
            // an extra grammar of the top-down family (own PRNG stream)
            let g2 = gen_topdown(&mut rng_td);
            if g2.reduced() {
                rep.count("topdown_family_grammars", 1);
                run_grammar(&g2, "topdown", &g2.text(), &wd, &mut rep, maxlen, true);
            }
        }
        let g = if i % 25 == 7 {
            rep.count("big_family_grammars", 1);
            gen_big(&mut rng)
        } else if i % 12 == 5 {
            rep.count("lists_family_grammars", 1);
            gen_lists(&mut rng)
        } else if i % 6 == 3 {
            rep.count("context_family_grammars", 1);
            gen_ctx(&mut rng)
        } else {
            gen_bnf(&mut rng, &o)
        };
        i += 1;
        if !g.reduced() {
            rep.count("grammars_not_reduced", 1);
            continue;
        }
        if rng.chance(0.2) {
            let t = with_layout(&g, &mut rng);
            run_grammar(&g, "random_bnf+layout", &t, &wd, &mut rep, maxlen, false);
        } else {
            run_grammar(&g, "random_bnf", &g.text(), &wd, &mut rep, maxlen, true);
        }
    }
    rep.finish();
}
