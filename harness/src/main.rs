#![allow(dead_code)]
mod ag;
mod c02;
mod c04;
mod c05;
mod c06;
mod c08;
mod c09;
mod groute;
mod c10;
mod c11;
mod c14;
mod astgen;
mod c15;
mod c16;
mod c17;
mod c18;
mod c_diff;
mod comp;
mod dynp;
mod enumr;
mod gens;
mod rep;
mod rng;
mod tree;

fn main() {
    // Deep trees (e.g. built by a looping parser before the step budget stops it) are dropped
    // recursively by the runtime's own types: give the worker a large stack (virtual memory only).
    let h = std::thread::Builder::new().stack_size(std::env::var("VH_STACK_MB").ok().and_then(|v| v.parse::<usize>().ok()).unwrap_or(512) << 20).spawn(real_main).expect("spawn worker thread");
    if h.join().is_err() {
        std::process::exit(101);
    }
}

fn real_main() {
    let args: Vec<String> = std::env::args().skip(1).collect();
    if args.is_empty() {
        eprintln!("usage: vh <worker> [--prop Cxx] [--seed N] [--shard i] [--nshards n] [--tier quick|thorough] [--out file] [--replay file]");
        std::process::exit(2);
    }
    // panics are observed through catch_unwind; keep stderr quiet
    if std::env::var("VH_PANIC_TRACE").is_err() {
        std::panic::set_hook(Box::new(|_| {}));
    }
    let a = rep::Args::parse(&args[1..]);
    let stuck_s: f64 = std::env::var("VH_STUCK_S").ok().and_then(|x| x.parse().ok()).unwrap_or(120.0);
    rep::watchdog::start(a.out.clone(), stuck_s, a.max_s * 4.0 + 600.0);
    match args[0].as_str() {
        // self-tests of the stuck-case watchdog (tools/selftest_watchdog.sh): a spinning case must be stopped (exit 3),
        // a sleeping one must not
        "wd-selftest-spin" => {
            rep::watchdog::set(|| "{\"selftest\": \"spin\"}".to_string());
            let mut x = 0u64;
            loop {
                x = std::hint::black_box(x.wrapping_add(1));
            }
        }
        "wd-selftest-sleep" => {
            rep::watchdog::set(|| "{\"selftest\": \"sleep\"}".to_string());
            std::thread::sleep(std::time::Duration::from_secs_f64(stuck_s * 3.0));
            println!("slept");
        }
        "diff" => c_diff::main(&a),
        "c02" => c02::main(&a),
        "c04" => c04::main(&a),
        "c05" => c05::main(&a),
        "c06" => c06::main(&a),
        "c08" => c08::main(&a),
        "c09" => c09::main(&a),
        "c10" => c10::main(&a),
        "c11" => c11::main(&a),
        "c14" => c14::main(&a),
        "c15" => c15::main(&a),
        "c16" => c16::main(&a),
        "c17" => c17::main(&a),
        "c18" => c18::main(&a),
        "dump" => dump(&a),
        w => {
            eprintln!("unknown worker {w}");
            std::process::exit(2);
        }
    }
}

/// Debug helper: vh dump --file g.rustemo [--glr 1] [--table 0|1|2]
fn dump(a: &rep::Args) {
    let text = std::fs::read_to_string(&a.extra["file"]).unwrap();
    let wd = comp::Workdir::new("dump");
    let spec = comp::SetSpec {
        glr: a.extra.contains_key("glr"),
        table: a.extra.get("table").map(|t| t.parse().unwrap()),
        ps: a.extra.get("ps").map(|t| t == "1"),
        pse: a.extra.get("pse").map(|t| t == "1"),
        builder: a.extra.get("builder").map(|t| t.parse().unwrap()).unwrap_or(1),
        ..Default::default()
    };
    let c = wd.compile(&text, &spec);
    eprintln!("outcome: {}", c.outcome.show());
    let Some(d) = c.dump else { return };
    for (i, t) in d.grammar.terminals.iter().enumerate() {
        eprintln!("term {i}: {} {:?} prio {} assoc {}", t.name, t.recognizer, t.prio, t.assoc);
    }
    for (i, n) in d.grammar.nonterminals.iter().enumerate() {
        eprintln!("nonterm {i} (sym {}): {}", i + d.grammar.terminals.len(), n.name);
    }
    eprintln!("empty {} stop {} aug {} augl {:?} start {}", d.grammar.empty_index, d.grammar.stop_index, d.grammar.augmented_index, d.grammar.augmented_layout_index, d.grammar.start_index);
    for (i, p) in d.grammar.productions.iter().enumerate() {
        eprintln!("prod {i}: nt{} ({}) ntidx {} -> {:?} prio {} assoc {} nops {} nopse {} kind {:?} meta {:?}", p.nonterminal, d.grammar.nonterminals[p.nonterminal].name, p.ntidx, p.rhs.iter().map(|a| a.symbol).collect::<Vec<_>>(), p.prio, p.assoc, p.nops, p.nopse, p.kind, p.meta);
    }
    for (i, s) in d.table.states.iter().enumerate() {
        eprintln!("state {i} sym {} sorted {:?}", s.symbol, s.sorted_terminals);
        for it in &s.items {
            eprintln!("   item p{} @{} {:?}", it.prod, it.position, it.follow);
        }
        for (t, a) in s.actions.iter().enumerate() {
            if !a.is_empty() {
                eprintln!("   on {} ({}): {:?}", t, d.grammar.terminals[t].name, a);
            }
        }
        eprintln!("   gotos {:?}", s.gotos);
    }
    eprintln!("layout_state {:?} rn {:?}", d.table.layout_state, d.table.production_rn_lengths);
    if let Some(input) = a.extra.get("input") {
        let mut cfg = spec.dyn_cfg();
        cfg.partial = a.extra.contains_key("partial");
        let dy = dynp::Dyn::new(&d, cfg).unwrap();
        dynp::set_step_limit(a.extra.get("steps").map(|s| s.parse().unwrap()).unwrap_or(100000));
        if spec.glr {
            let r = dynp::guarded(|| dy.glr_parse(input).map(|f| f.solutions()));
            eprintln!("GLR => {:?} steps {}", r.map(|r| r.map_err(|e| e.to_pos_str())), dynp::steps());
        } else {
            let r = dynp::guarded(|| dy.lr_parse(input).map(|t| dynp::shown(&t)));
            eprintln!("LR => {:?} steps {}", r.map(|r| r.map_err(|e| e.to_pos_str())), dynp::steps());
        }
    }
}
