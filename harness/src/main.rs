#![allow(dead_code)]
mod ag;
mod c_diff;
mod comp;
mod dynp;
mod enumr;
mod gens;
mod rep;
mod rng;
mod tree;

fn main() {
    let args: Vec<String> = std::env::args().skip(1).collect();
    if args.is_empty() {
        eprintln!("usage: vh <worker> [--prop Cxx] [--seed N] [--shard i] [--nshards n] [--tier quick|thorough] [--out file] [--replay file]");
        std::process::exit(2);
    }
    // panics are observed through catch_unwind; keep stderr quiet
    if std::env::var("VH_PANIC_TRACE").is_err() {
        std::panic::set_hook(Box::new(|_| {}));
    }
    let a = rep::Args::parse(&args[1..]);
    let stuck_s: f64 = std::env::var("VH_STUCK_S").ok().and_then(|x| x.parse().ok()).unwrap_or(120.0);
    rep::watchdog::start(a.out.clone(), stuck_s);
    match args[0].as_str() {
        "diff" => c_diff::main(&a),
        w => {
            eprintln!("unknown worker {w}");
            std::process::exit(2);
        }
    }
}
