//! `ast` generator: grammars exercising the default builder's type inference
//! (enum / struct / reference / vector / optional shapes, recursive types,
//! named assignments, sugar, @vec in both recursion directions), and random
//! derivations whose regex tokens carry unique texts.
use crate::ag::{Alt, Meta, Rec, Rule, Sym, Term, AG};
use crate::rng::Rng;
use serde_json::{json, Value};
use std::collections::BTreeMap;

#[derive(Clone, Debug)]
pub struct ATerm {
    pub name: String,
    /// literal text, or None for a regex terminal (content)
    pub lit: Option<String>,
    pub regex: String,
    /// prefix of generated unique texts, e.g. "x" -> x17
    pub prefix: String,
}

#[derive(Clone, Debug, PartialEq)]
pub struct AItem {
    pub sym: Sym,
    pub assign: Option<(String, bool)>,
    pub rep: Option<(char, Option<usize>)>,
}

#[derive(Clone, Debug)]
pub struct AAlt {
    pub items: Vec<AItem>,
    pub kind: Option<String>,
}

#[derive(Clone, Debug)]
pub struct ARule {
    pub name: String,
    pub vec_ann: bool,
    pub alts: Vec<AAlt>,
}

#[derive(Clone, Debug)]
pub struct AstG {
    pub terms: Vec<ATerm>,
    pub rules: Vec<ARule>,
    /// index of the dedicated terminal that is only ever used under `?=`
    pub flag_term: Option<usize>,
}

/// Names avoid Rust prelude / generated identifiers (stated as an assumption of C10/C11).
const RULE_NAMES: [&str; 8] = ["Expr", "Stmt", "Item", "Decl", "Arg", "Body", "Part", "Elem"];
const POOL: [(&str, Option<&str>, &str, &str); 11] = [
    ("Id", None, "x\\d+", "x"),
    ("Num", None, "\\d+", ""),
    ("Tag", None, "#\\w+", "#t"),
    ("LP", Some("("), "", ""),
    ("RP", Some(")"), "", ""),
    ("Comma", Some(","), "", ""),
    ("Semi", Some(";"), "", ""),
    ("Plus", Some("+"), "", ""),
    ("KwA", Some("alpha"), "", ""),
    ("KwB", Some("beta"), "", ""),
    ("Flag", None, "!f\\d+", "!f"),
];
const ANAMES: [&str; 11] = ["lhs", "rhs", "name", "value", "first", "rest", "xs", "ys", "firstB", "itemList", "n2"];
const KINDS: [&str; 6] = ["Add", "Sub", "Call", "Neg", "Pair", "Leaf"];

impl AstG {
    pub fn text(&self) -> String {
        let mut s = String::new();
        for r in &self.rules {
            if r.vec_ann {
                s.push_str("@vec\n");
            }
            s.push_str(&format!("{}: ", r.name));
            let alts: Vec<String> = r
                .alts
                .iter()
                .map(|a| {
                    let body = if a.items.is_empty() {
                        "EMPTY".to_string()
                    } else {
                        a.items
                            .iter()
                            .map(|it| {
                                let mut x = String::new();
                                if let Some((n, b)) = &it.assign {
                                    x.push_str(n);
                                    x.push_str(if *b { "?=" } else { "=" });
                                }
                                x.push_str(&self.sym_name(&it.sym));
                                if let Some((op, sep)) = &it.rep {
                                    x.push(*op);
                                    if let Some(sp) = sep {
                                        x.push_str(&format!("[{}]", self.terms[*sp].name));
                                    }
                                }
                                x
                            })
                            .collect::<Vec<_>>()
                            .join(" ")
                    };
                    match &a.kind {
                        Some(k) => format!("{} {{{}}}", body, k),
                        None => body,
                    }
                })
                .collect();
            s.push_str(&alts.join("\n    | "));
            s.push_str(";\n");
        }
        s.push_str("terminals\n");
        for t in &self.terms {
            match &t.lit {
                Some(l) => s.push_str(&format!("{}: '{}';\n", t.name, l)),
                None => s.push_str(&format!("{}: /{}/;\n", t.name, t.regex)),
            }
        }
        s
    }

    pub fn sym_name(&self, s: &Sym) -> String {
        match s {
            Sym::T(t) => self.terms[*t].name.clone(),
            Sym::N(n) => self.rules[*n].name.clone(),
        }
    }

    /// Documented expansion as a plain grammar over token kinds (for derivation counting).
    pub fn desugar(&self) -> AG {
        let mut rules: Vec<Rule> = self.rules.iter().map(|r| Rule { name: r.name.clone(), alts: vec![], meta: Meta::default() }).collect();
        let mut helpers: BTreeMap<(Sym, char, Option<usize>), usize> = BTreeMap::new();
        for (ri, r) in self.rules.iter().enumerate() {
            for a in &r.alts {
                let mut syms = vec![];
                for it in &a.items {
                    match &it.rep {
                        None => syms.push(it.sym),
                        Some((op, sep)) => {
                            let mut one = |rules: &mut Vec<Rule>, helpers: &mut BTreeMap<(Sym, char, Option<usize>), usize>| -> usize {
                                if let Some(i) = helpers.get(&(it.sym, '+', *sep)) {
                                    return *i;
                                }
                                let i = rules.len();
                                let mut rec = vec![Sym::N(i)];
                                if let Some(sp) = sep {
                                    rec.push(Sym::T(*sp));
                                }
                                rec.push(it.sym);
                                rules.push(Rule { name: format!("H{}", i), alts: vec![Alt { syms: rec, meta: Meta::default() }, Alt { syms: vec![it.sym], meta: Meta::default() }], meta: Meta::default() });
                                helpers.insert((it.sym, '+', *sep), i);
                                i
                            };
                            let h = match op {
                                '+' => one(&mut rules, &mut helpers),
                                '*' => match helpers.get(&(it.sym, '*', *sep)) {
                                    Some(i) => *i,
                                    None => {
                                        let o = one(&mut rules, &mut helpers);
                                        let i = rules.len();
                                        rules.push(Rule { name: format!("H{}", i), alts: vec![Alt { syms: vec![Sym::N(o)], meta: Meta::default() }, Alt::default()], meta: Meta::default() });
                                        helpers.insert((it.sym, '*', *sep), i);
                                        i
                                    }
                                },
                                _ => match helpers.get(&(it.sym, '?', None)) {
                                    Some(i) => *i,
                                    None => {
                                        let i = rules.len();
                                        rules.push(Rule { name: format!("H{}", i), alts: vec![Alt { syms: vec![it.sym], meta: Meta::default() }, Alt::default()], meta: Meta::default() });
                                        helpers.insert((it.sym, '?', None), i);
                                        i
                                    }
                                },
                            };
                            syms.push(Sym::N(h));
                        }
                    }
                }
                rules[ri].alts.push(Alt { syms, meta: Meta::default() });
            }
        }
        AG { terms: self.terms.iter().map(|t| Term { name: t.name.clone(), rec: Rec::Lit(t.name.clone()), meta: Meta::default() }).collect(), rules }
    }

    /// minimal number of tokens per rule (sugar: ? and * cost 0)
    fn mincost(&self) -> Vec<usize> {
        let inf = usize::MAX / 4;
        let mut m = vec![inf; self.rules.len()];
        loop {
            let mut ch = false;
            for (i, r) in self.rules.iter().enumerate() {
                for a in &r.alts {
                    let c = a.items.iter().map(|it| self.item_cost(it, &m)).fold(0usize, |x, y| x.saturating_add(y).min(inf));
                    if c < m[i] {
                        m[i] = c;
                        ch = true;
                    }
                }
            }
            if !ch {
                return m;
            }
        }
    }
    fn item_cost(&self, it: &AItem, m: &[usize]) -> usize {
        let base = match it.sym {
            Sym::T(_) => 1,
            Sym::N(n) => m[n],
        };
        match it.rep {
            Some(('?', _)) | Some(('*', _)) => 0,
            _ => base,
        }
    }

    pub fn productive(&self) -> bool {
        let m = self.mincost();
        m.iter().all(|c| *c < usize::MAX / 4)
    }

    pub fn to_json(&self) -> Value {
        json!({"text": self.text()})
    }
}

/// A token of a generated sentence.
#[derive(Clone, Debug)]
pub struct GTok {
    pub term: usize,
    pub text: String,
}

/// Event log of the derivation: what a faithful AST has to show.
#[derive(Clone, Debug, Default)]
pub struct Expect {
    /// `?=` bindings in derivation order: present / absent
    pub bools: Vec<bool>,
    /// number of `X?` uses (outside ?=) that were absent
    pub absent_opts: usize,
    /// number of `X*` uses that matched nothing
    pub empty_stars: usize,
    /// explicit EMPTY alternatives taken
    pub empty_alts: usize,
    /// ... of which in explicit vector-shaped rules (`A: A B | B | EMPTY` / `A: B A | B | EMPTY`)
    pub empty_alts_vec: usize,
}

pub struct Deriver<'a> {
    pub g: &'a AstG,
    pub cost: Vec<usize>,
    pub counter: usize,
    pub steps: usize,
}

impl<'a> Deriver<'a> {
    pub fn new(g: &'a AstG) -> Self {
        Deriver { g, cost: g.mincost(), counter: 100, steps: 0 }
    }
    fn tok(&mut self, t: usize) -> GTok {
        let at = &self.g.terms[t];
        let text = match &at.lit {
            Some(l) => l.clone(),
            None => {
                self.counter += 1;
                format!("{}{}", at.prefix, self.counter)
            }
        };
        GTok { term: t, text }
    }
    fn sym(&mut self, s: Sym, rng: &mut Rng, out: &mut Vec<GTok>, ex: &mut Expect, depth: usize) -> bool {
        match s {
            Sym::T(t) => {
                let k = self.tok(t);
                out.push(k);
                true
            }
            Sym::N(n) => self.rule(n, rng, out, ex, depth + 1),
        }
    }
    pub fn rule(&mut self, r: usize, rng: &mut Rng, out: &mut Vec<GTok>, ex: &mut Expect, depth: usize) -> bool {
        self.steps += 1;
        if self.steps > 400 || depth > 40 {
            return false;
        }
        let alts = &self.g.rules[r].alts;
        let costs: Vec<usize> = alts.iter().map(|a| a.items.iter().map(|it| self.g.item_cost(it, &self.cost)).fold(0usize, |x, y| x.saturating_add(y))).collect();
        let viable: Vec<usize> = (0..alts.len()).filter(|i| costs[*i] < usize::MAX / 4).collect();
        if viable.is_empty() {
            return false;
        }
        let ai = if depth > 5 || out.len() > 14 { *viable.iter().min_by_key(|i| costs[**i]).unwrap() } else { viable[rng.below(viable.len())] };
        let alt = alts[ai].clone();
        if alt.items.is_empty() {
            ex.empty_alts += 1;
            let me = Sym::N(r);
            let vec_shaped = alts.len() == 3
                && alts.iter().any(|a| a.items.len() == 2 && a.items.iter().any(|i| i.sym == me && i.rep.is_none()))
                && alts.iter().any(|a| a.items.len() == 1 && a.items[0].sym != me);
            if vec_shaped {
                ex.empty_alts_vec += 1;
            }
        }
        let lean = depth > 4 || out.len() > 10;
        for it in &alt.items {
            let is_bool = matches!(&it.assign, Some((_, true)));
            match it.rep {
                None => {
                    if is_bool {
                        ex.bools.push(true);
                    }
                    if !self.sym(it.sym, rng, out, ex, depth) {
                        return false;
                    }
                }
                Some(('?', _)) => {
                    let present = !lean && rng.chance(0.5);
                    if is_bool {
                        ex.bools.push(present);
                    } else if !present {
                        ex.absent_opts += 1;
                    }
                    if present && !self.sym(it.sym, rng, out, ex, depth) {
                        return false;
                    }
                }
                Some((op, sep)) => {
                    let min = if op == '+' { 1 } else { 0 };
                    let n = if lean { min } else { rng.range(min, 3) };
                    if n == 0 {
                        ex.empty_stars += 1;
                    }
                    for i in 0..n {
                        if i > 0 {
                            if let Some(sp) = sep {
                                let k = self.tok(sp);
                                out.push(k);
                            }
                        }
                        if !self.sym(it.sym, rng, out, ex, depth) {
                            return false;
                        }
                    }
                }
            }
        }
        true
    }
}

pub fn render(toks: &[GTok], rng: &mut Rng) -> (String, Vec<(usize, usize)>) {
    let mut s = String::new();
    let mut spans = vec![];
    for (i, t) in toks.iter().enumerate() {
        if i > 0 {
            s.push_str(*rng.pick(&[" ", " ", "  ", "\n", "\t"]));
        }
        let st = s.len();
        s.push_str(&t.text);
        spans.push((st, s.len()));
    }
    (s, spans)
}

/// Nested lists: a hand-written (`@vec`, left- or right-recursive) list whose element refers back to the list, so that
/// the vector type is recursive (`Vec<Box<_>>` or a boxed variant) - start rule either the list or the element.
pub fn gen_nested_lists(rng: &mut Rng) -> AstG {
    let mk = |i: usize| ATerm { name: POOL[i].0.into(), lit: POOL[i].1.map(|s| s.to_string()), regex: POOL[i].2.into(), prefix: POOL[i].3.into() };
    let terms: Vec<ATerm> = vec![mk(1), mk(0), mk(3), mk(4), mk(5)]; // Num Id LP RP Comma
    let plain = |s: Sym| AItem { sym: s, assign: None, rep: None };
    let list_first = rng.chance(0.5);
    let (li, ei) = if list_first { (0usize, 1usize) } else { (1, 0) };
    let (l, e) = (Sym::N(li), Sym::N(ei));
    let right = rng.chance(0.6);
    let with_sep = rng.chance(0.3);
    let mut rec = if right { vec![plain(e)] } else { vec![plain(l)] };
    if with_sep {
        rec.push(plain(Sym::T(4)));
    }
    rec.push(if right { plain(l) } else { plain(e) });
    let mut lalts = vec![AAlt { items: rec, kind: None }, AAlt { items: vec![plain(e)], kind: None }];
    if !with_sep && rng.chance(0.3) {
        lalts.push(AAlt { items: vec![], kind: None });
    }
    let mut ealts = vec![AAlt { items: vec![plain(Sym::T(0))], kind: None }, AAlt { items: vec![plain(Sym::T(2)), plain(l), plain(Sym::T(3))], kind: None }];
    if rng.chance(0.5) {
        ealts.push(AAlt { items: vec![plain(Sym::T(1))], kind: None });
    }
    let lr = ARule { name: "Items".into(), vec_ann: true, alts: lalts };
    let er = ARule { name: "Item".into(), vec_ann: false, alts: ealts };
    let rules = if list_first { vec![lr, er] } else { vec![er, lr] };
    AstG { terms, rules, flag_term: None }
}

/// Optional tails: a production that ends in two or three optional parts, each led by its own literal (unambiguous by
/// construction), with a priority above the default on that production - the right-nulled table then keeps the short
/// reductions instead of the EMPTY ones, so the intermediate-length arms of the generated reduce_action really run.
pub fn gen_opt_tails(rng: &mut Rng) -> AstG {
    let mk = |i: usize| ATerm { name: POOL[i].0.into(), lit: POOL[i].1.map(|s| s.to_string()), regex: POOL[i].2.into(), prefix: POOL[i].3.into() };
    // Id Num Tag Plus Semi Comma KwA
    let terms: Vec<ATerm> = vec![mk(0), mk(1), mk(2), mk(7), mk(6), mk(5), mk(8)];
    let it = |s: Sym, rep: Option<char>, name: Option<&str>| AItem { sym: s, assign: name.map(|n| (n.to_string(), false)), rep: rep.map(|c| (c, None)) };
    let ntails = rng.range(2, 3);
    let named = rng.chance(0.4);
    // rules: 0 Body, 1 Decl, 2.. tails
    let mut decl = vec![it(Sym::T(0), None, if named { Some("name") } else { None })];
    let tail_syms = [(3usize, 1usize), (4, 2), (5, 0)]; // (lead literal, content terminal)
    let mut rules = vec![];
    for k in 0..ntails {
        decl.push(it(Sym::N(2 + k), Some('?'), if named && k == 0 { Some("value") } else { None }));
    }
    let prio = if rng.chance(0.75) { Some("15".to_string()) } else { None };
    rules.push(ARule { name: "Body".into(), vec_ann: false, alts: vec![AAlt { items: vec![it(Sym::T(6), None, None), it(Sym::N(1), Some('+'), None)], kind: None }] });
    rules.push(ARule { name: "Decl".into(), vec_ann: false, alts: vec![AAlt { items: decl, kind: prio }] });
    for k in 0..ntails {
        let (lead, content) = tail_syms[k];
        rules.push(ARule { name: ["Part", "Elem", "Arg"][k].into(), vec_ann: false, alts: vec![AAlt { items: vec![it(Sym::T(lead), None, None), it(Sym::T(content), None, None)], kind: None }] });
    }
    AstG { terms, rules, flag_term: None }
}

/// Lexically ambiguous numbers (for GLR with longest match off): `Num: /\\d+/` against `Two: /\\d\\d/`, so that a forest
/// holds trees over different tokenisations of the same input; every one of them must still carry the whole text.
pub fn gen_lex_amb(rng: &mut Rng) -> AstG {
    let mk = |i: usize| ATerm { name: POOL[i].0.into(), lit: POOL[i].1.map(|s| s.to_string()), regex: POOL[i].2.into(), prefix: POOL[i].3.into() };
    let mut terms: Vec<ATerm> = vec![mk(1), ATerm { name: "Two".into(), lit: None, regex: "\\d\\d".into(), prefix: "".into() }]; // Num Two (+ Id, Semi when used)
    let plain = |s: Sym, rep: Option<char>| AItem { sym: s, assign: None, rep: rep.map(|c| (c, None)) };
    let mut item_alts = vec![AAlt { items: vec![plain(Sym::T(0), None)], kind: None }, AAlt { items: vec![plain(Sym::T(1), None)], kind: None }];
    if rng.chance(0.6) {
        terms.push(mk(0));
        item_alts.push(AAlt { items: vec![plain(Sym::T(terms.len() - 1), None)], kind: None });
    }
    if rng.chance(0.4) {
        terms.push(mk(6));
        item_alts.push(AAlt { items: vec![plain(Sym::T(0), None), plain(Sym::T(terms.len() - 1), None), plain(Sym::T(1), None)], kind: None });
    }
    let rules = vec![
        ARule { name: "Body".into(), vec_ann: false, alts: vec![AAlt { items: vec![plain(Sym::N(1), Some('+'))], kind: None }] },
        ARule { name: "Item".into(), vec_ann: false, alts: item_alts },
    ];
    AstG { terms, rules, flag_term: None }
}

pub fn gen_ast(rng: &mut Rng) -> AstG {
    if rng.chance(0.12) {
        return gen_nested_lists(rng);
    }
    if rng.chance(0.1) {
        return gen_opt_tails(rng);
    }
    let n = rng.range(1, 5);
    let k = rng.range(3, POOL.len() - 1);
    let mut idx: Vec<usize> = (0..POOL.len() - 1).collect();
    rng.shuffle(&mut idx);
    let mut chosen: Vec<usize> = idx.into_iter().take(k).collect();
    chosen.sort();
    if !chosen.iter().any(|i| POOL[*i].1.is_none()) {
        chosen.insert(0, 0);
    }
    let use_flag = rng.chance(0.4);
    if use_flag {
        chosen.push(POOL.len() - 1);
    }
    let terms: Vec<ATerm> = chosen.iter().map(|i| ATerm { name: POOL[*i].0.into(), lit: POOL[*i].1.map(|s| s.to_string()), regex: POOL[*i].2.into(), prefix: POOL[*i].3.into() }).collect();
    let flag_term = if use_flag { Some(terms.len() - 1) } else { None };
    let nplain = if use_flag { terms.len() - 1 } else { terms.len() };
    let comma = terms.iter().position(|t| t.name == "Comma");
    let lits: Vec<usize> = (0..nplain).filter(|i| terms[*i].lit.is_some()).collect();
    let mut rules = vec![];
    // fence of the listed finding duplicate-kind-type-names: a production kind is used once per grammar
    let mut kinds_used: Vec<&str> = vec![];
    let mut sep_of: BTreeMap<Sym, Option<usize>> = BTreeMap::new();
    for i in 0..n {
        let name = RULE_NAMES[i].to_string();
        let shape = rng.below(10);
        if shape < 2 {
            // explicit vector rule, left or right recursive, with or without EMPTY
            let el = if n > 1 && rng.chance(0.5) {
                let mut o = rng.below(n);
                if o == i {
                    o = (o + 1) % n;
                }
                Sym::N(o)
            } else {
                Sym::T(rng.below(nplain))
            };
            let me = Sym::N(i);
            let plain = |s: Sym| AItem { sym: s, assign: None, rep: None };
            let mut alts = vec![];
            if rng.chance(0.5) {
                alts.push(AAlt { items: vec![plain(me), plain(el)], kind: None });
            } else {
                alts.push(AAlt { items: vec![plain(el), plain(me)], kind: None });
            }
            alts.push(AAlt { items: vec![plain(el)], kind: None });
            if rng.chance(0.4) {
                alts.push(AAlt { items: vec![], kind: None });
            }
            rules.push(ARule { name, vec_ann: rng.chance(0.8), alts });
            continue;
        }
        let mut alts: Vec<AAlt> = vec![];
        for _ in 0..rng.range(1, 3) {
            let ln = rng.range(1, 4);
            let mut used: Vec<&str> = vec![];
            let mut items = vec![];
            for _ in 0..ln {
                let mut sym = if rng.chance(0.55) { Sym::T(rng.below(nplain)) } else { Sym::N(rng.below(n)) };
                let r = rng.below(100);
                // fence of the listed C09 finding sep-helper-name: all + / * uses of one symbol carry the same
                // separator setting (the helper rule is named without the separator)
                let mut sep_for = |sym: Sym, rng: &mut Rng| -> Option<usize> { *sep_of.entry(sym).or_insert_with(|| if comma.is_some() && rng.chance(0.25) { comma } else { None }) };
                let mut rep = if r < 12 {
                    Some(('?', None))
                } else if r < 26 {
                    Some(('*', sep_for(sym, rng)))
                } else if r < 40 {
                    Some(('+', sep_for(sym, rng)))
                } else {
                    None
                };
                let mut assign = None;
                if rng.chance(0.25) {
                    let nm = *rng.pick(&ANAMES);
                    if !used.contains(&nm) {
                        used.push(nm);
                        let is_bool = rng.chance(0.25);
                        if is_bool {
                            // `?=` only binds literal terminals or the dedicated Flag terminal (see DESIGN C10),
                            // plain or optional
                            sym = match (flag_term, lits.is_empty()) {
                                (Some(f), _) if rng.chance(0.6) => Sym::T(f),
                                (_, false) => Sym::T(*rng.pick(&lits)),
                                (Some(f), true) => Sym::T(f),
                                (None, true) => sym,
                            };
                            let ok = matches!(sym, Sym::T(t) if Some(t) == flag_term || terms[t].lit.is_some());
                            if ok {
                                rep = if rng.chance(0.6) { Some(('?', None)) } else { None };
                                assign = Some((nm.to_string(), true));
                            }
                        } else {
                            assign = Some((nm.to_string(), false));
                        }
                    }
                }
                items.push(AItem { sym, assign, rep });
            }
            if alts.iter().any(|a| a.items == items) {
                continue;
            }
            let kind = if rng.chance(0.2) {
                let k = *rng.pick(&KINDS);
                if kinds_used.contains(&k) {
                    None
                } else {
                    kinds_used.push(k);
                    Some(k.to_string())
                }
            } else {
                None
            };
            alts.push(AAlt { items, kind });
        }
        if rng.chance(0.2) {
            alts.push(AAlt { items: vec![], kind: None });
        }
        rules.push(ARule { name, vec_ann: false, alts });
    }
    AstG { terms, rules, flag_term }
}
