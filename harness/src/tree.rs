//! Conversions between rustemo's generic tree and the oracle's tree, name-based
//! mapping between dump indexes and the abstract grammar, span invariants (C13).
use crate::ag::*;
use crate::dynp::LTree;
use crate::enumr::T;
use rustemo::TreeNode;
use rustemo_compiler::verif::Dump;

pub struct Map {
    /// dump terminal index -> AG terminal index
    pub term: Vec<Option<usize>>,
    /// dump non-terminal index -> AG rule index
    pub rule: Vec<Option<usize>>,
}

impl Map {
    pub fn new(d: &Dump, g: &AG) -> Map {
        Map {
            term: d.grammar.terminals.iter().map(|t| g.terms.iter().position(|x| x.name == t.name)).collect(),
            rule: d.grammar.nonterminals.iter().map(|n| g.rules.iter().position(|x| x.name == n.name)).collect(),
        }
    }
}

/// Convert a rustemo tree to the oracle's tree type. Err = the tree mentions
/// something that is not in the abstract grammar.
pub fn conv(t: &LTree, d: &Dump, m: &Map) -> Result<T, String> {
    match t {
        TreeNode::TermNode { token, .. } => {
            let term = m.term.get(token.kind.0 as usize).cloned().flatten().ok_or_else(|| format!("unknown token kind {}", token.kind.0))?;
            Ok(T::Leaf { term, start: token.span.start.pos, end: token.span.end.pos })
        }
        TreeNode::NonTermNode { prod, children, .. } => {
            let p = d.grammar.productions.get(prod.prod as usize).ok_or_else(|| format!("unknown production {}", prod.prod))?;
            let rule = m.rule.get(p.nonterminal).cloned().flatten().ok_or_else(|| format!("unknown non-terminal {}", p.nonterminal))?;
            let mut ch = vec![];
            for c in children {
                ch.push(conv(c, d, m)?);
            }
            Ok(T::Node { rule, alt: p.ntidx, children: ch })
        }
    }
}

/// Rendering with spans that elides trailing children deriving the empty string
/// (what right-nulled GLR reductions may drop); returns true if the node derives empty.
pub fn render_norm(t: &LTree, out: &mut String) -> bool {
    match t {
        TreeNode::TermNode { token, .. } => {
            out.push_str(&format!("t{}[{}-{}]{:?} ", token.kind.0, token.span.start.pos, token.span.end.pos, token.value));
            false
        }
        TreeNode::NonTermNode { prod, span, children, .. } => {
            let mut parts: Vec<(String, bool)> = vec![];
            for c in children {
                let mut o = String::new();
                let e = render_norm(c, &mut o);
                parts.push((o, e));
            }
            while let Some((_, true)) = parts.last() {
                parts.pop();
            }
            out.push_str(&format!("(p{}[{}-{}] ", prod.prod, span.start.pos, span.end.pos));
            let empty = parts.is_empty();
            for (o, _) in parts {
                out.push_str(&o);
            }
            out.push_str(") ");
            empty
        }
    }
}

pub fn line_col(input: &str, pos: usize) -> (usize, usize) {
    let before = &input.as_bytes()[..pos];
    let line = 1 + before.iter().filter(|b| **b == b'\n').count();
    let col = pos - before.iter().rposition(|b| *b == b'\n').map(|x| x + 1).unwrap_or(0);
    (line, col)
}

fn check_pos(input: &str, p: &rustemo::Position, what: &str, errs: &mut Vec<String>) {
    if p.pos > input.len() {
        errs.push(format!("{} offset {} beyond input", what, p.pos));
        return;
    }
    match p.line_col {
        None => errs.push(format!("{} has no line/column", what)),
        Some(lc) => {
            let (l, c) = line_col(input, p.pos);
            if lc.line != l || lc.column != c {
                errs.push(format!("{} at byte {}: line/col ({},{}) expected ({},{})", what, p.pos, lc.line, lc.column, l, c));
            }
        }
    }
}

/// C13 invariants over one tree. prev_end = end of the previous token.
pub struct SpanChk<'a> {
    pub input: &'a str,
    pub prev_end: usize,
    pub pending_empty: Vec<usize>,
    pub errs: Vec<String>,
    pub tokens: usize,
    pub empties: usize,
}

impl<'a> SpanChk<'a> {
    pub fn new(input: &'a str) -> Self {
        SpanChk { input, prev_end: 0, pending_empty: vec![], errs: vec![], tokens: 0, empties: 0 }
    }
    /// returns Some((start,end)) of the node
    pub fn node(&mut self, t: &LTree) -> (usize, usize) {
        match t {
            TreeNode::TermNode { token, .. } => {
                let (s, e) = (token.span.start.pos, token.span.end.pos);
                self.tokens += 1;
                if s > e || e > self.input.len() {
                    self.errs.push(format!("token span [{}-{}] malformed", s, e));
                    return (s, e);
                }
                if s < self.prev_end {
                    self.errs.push(format!("token at {} overlaps previous token ending at {}", s, self.prev_end));
                }
                if !self.input.is_char_boundary(s) || !self.input.is_char_boundary(e) {
                    self.errs.push(format!("token span [{}-{}] not on char boundaries", s, e));
                } else if &self.input[s..e] != token.value || token.value.as_ptr() as usize != self.input.as_ptr() as usize + s {
                    self.errs.push(format!("token value {:?} is not the input slice at [{}-{}]", token.value, s, e));
                }
                for p in self.pending_empty.drain(..) {
                    if p > s {
                        self.errs.push(format!("empty non-terminal at {} lies after the start {} of the next token", p, s));
                    }
                }
                check_pos(self.input, &token.span.start, "token start", &mut self.errs);
                check_pos(self.input, &token.span.end, "token end", &mut self.errs);
                self.prev_end = e;
                (s, e)
            }
            TreeNode::NonTermNode { span, children, .. } => {
                check_pos(self.input, &span.start, "non-terminal start", &mut self.errs);
                check_pos(self.input, &span.end, "non-terminal end", &mut self.errs);
                if children.is_empty() {
                    self.empties += 1;
                    if span.start.pos != span.end.pos {
                        self.errs.push(format!("empty non-terminal has width [{}-{}]", span.start.pos, span.end.pos));
                    }
                    if span.start.pos < self.prev_end {
                        self.errs.push(format!("empty non-terminal at {} lies before the end {} of the preceding token", span.start.pos, self.prev_end));
                    }
                    self.pending_empty.push(span.start.pos);
                    (span.start.pos, span.end.pos)
                } else {
                    let mut first = None;
                    let mut last = (0, 0);
                    for c in children {
                        let r = self.node(c);
                        if first.is_none() {
                            first = Some(r);
                        }
                        last = r;
                    }
                    let first = first.unwrap();
                    if span.start.pos != first.0 || span.end.pos != last.1 {
                        self.errs.push(format!("non-terminal span [{}-{}] != [first child start {} - last child end {}]", span.start.pos, span.end.pos, first.0, last.1));
                    }
                    (span.start.pos, span.end.pos)
                }
            }
        }
    }
    pub fn finish(mut self) -> Vec<String> {
        // an empty non-terminal after the last token may lie anywhere up to the end of input
        for p in self.pending_empty.drain(..) {
            if p > self.input.len() {
                self.errs.push(format!("empty non-terminal at {} beyond input", p));
            }
        }
        self.errs
    }
}

pub fn count_nodes(t: &LTree) -> usize {
    match t {
        TreeNode::TermNode { .. } => 1,
        TreeNode::NonTermNode { children, .. } => 1 + children.iter().map(count_nodes).sum::<usize>(),
    }
}

pub fn leaves<'a, 'i>(t: &'a LTree<'i>, out: &mut Vec<&'a rustemo::Token<'i, str, crate::dynp::Tk>>) {
    match t {
        TreeNode::TermNode { token, .. } => out.push(token),
        TreeNode::NonTermNode { children, .. } => children.iter().for_each(|c| leaves(c, out)),
    }
}
