//! Dynamic route: drives the *real* rustemo runtime (LRParser / GlrParser /
//! StringLexer / TreeBuilder) with the *real* table dumped by the compiler
//! hook, without compiling generated code. Only the *data* of the generated
//! `ParserDefinition` comes from the dump; nothing of the runtime is modelled.
use rustemo::{
    Action, Context, Forest, GlrParser, GssHead, LRContext, LRParser, Lexer, Parser, ParserDefinition, State, StringLexer, Token,
    TokenRecognizer, TreeBuilder, TreeNode,
};
use rustemo_compiler::verif::{Dump, VAction, VRecognizer};
use std::cell::Cell;

pub const MAXT: usize = 128;

thread_local! {
    static LAYOUT: Cell<Option<u16>> = const { Cell::new(None) };
    static LONGEST: Cell<bool> = const { Cell::new(true) };
    static GORDER: Cell<bool> = const { Cell::new(true) };
    pub static STEPS: Cell<u64> = const { Cell::new(0) };
    pub static STEP_LIMIT: Cell<u64> = const { Cell::new(u64::MAX) };
}

/// Panic payload raised by the logical clock when the step budget is exceeded.
pub struct StepLimit;

pub fn tick() {
    STEPS.with(|s| {
        let v = s.get() + 1;
        s.set(v);
        if v > STEP_LIMIT.with(|l| l.get()) {
            std::panic::panic_any(StepLimit);
        }
    });
}
pub fn steps() -> u64 {
    STEPS.with(|s| s.get())
}
pub fn set_step_limit(l: u64) {
    STEP_LIMIT.with(|x| x.set(l));
}

#[derive(Copy, Clone, Default, Debug, PartialEq, Eq, PartialOrd, Ord, Hash)]
pub struct St(pub u16);
impl State for St {
    fn default_layout() -> Option<Self> {
        LAYOUT.with(|l| l.get()).map(St)
    }
}
impl From<St> for usize {
    fn from(s: St) -> usize {
        s.0 as usize
    }
}
#[derive(Copy, Clone, Default, Debug, PartialEq, Eq, PartialOrd, Ord, Hash)]
pub struct Tk(pub u16);
impl From<Tk> for usize {
    fn from(s: Tk) -> usize {
        s.0 as usize
    }
}
#[derive(Copy, Clone, Debug, PartialEq, Eq)]
pub struct Pk {
    pub prod: u16,
    pub nt: u16,
}
#[derive(Copy, Clone, Debug, PartialEq, Eq)]
pub struct Ntk(pub u16);
impl From<Pk> for Ntk {
    fn from(p: Pk) -> Ntk {
        Ntk(p.nt)
    }
}

pub struct DynDef {
    actions: Vec<Vec<Vec<Action<St, Pk>>>>,
    gotos: Vec<Vec<Option<St>>>,
    expected: Vec<Vec<(Tk, bool)>>,
}

impl ParserDefinition<St, Pk, Tk, Ntk> for DynDef {
    fn actions(&self, state: St, token: Tk) -> Vec<Action<St, Pk>> {
        tick();
        // Generated parsers answer Error for an empty cell in LR mode (arrays
        // are padded with Error, functions have a catch-all `vec![Error]`)
        // and an empty vector otherwise; see generator/{arrays,functions}.rs.
        self.actions[state.0 as usize][token.0 as usize].clone()
    }
    fn goto(&self, state: St, nonterm: Ntk) -> St {
        tick();
        self.gotos[state.0 as usize][nonterm.0 as usize].expect("Invalid GOTO entry!")
    }
    fn expected_token_kinds(&self, state: St) -> Vec<(Tk, bool)> {
        tick();
        self.expected[state.0 as usize].clone()
    }
    fn longest_match() -> bool {
        LONGEST.with(|l| l.get())
    }
    fn grammar_order() -> bool {
        GORDER.with(|l| l.get())
    }
}

pub enum Rec {
    Stop,
    Str(String),
    Regex(regex::Regex),
    Fancy(fancy_regex::Regex),
    Never,
}

impl<'i> TokenRecognizer<'i> for Rec {
    fn recognize(&self, input: &'i str) -> Option<&'i str> {
        tick();
        match self {
            Rec::Stop => {
                if input.is_empty() {
                    Some("")
                } else {
                    None
                }
            }
            Rec::Str(s) => {
                if input.starts_with(s.as_str()) {
                    Some(&input[..s.len()])
                } else {
                    None
                }
            }
            Rec::Regex(r) => r.find(input).map(|m| m.as_str()),
            Rec::Fancy(r) => match r.find(input) {
                Ok(Some(m)) => Some(m.as_str()),
                _ => None,
            },
            Rec::Never => None,
        }
    }
}

#[derive(Clone, Copy, Debug)]
pub struct Cfg {
    pub partial: bool,
    pub skip_ws: bool,
    pub longest_match: bool,
    pub grammar_order: bool,
    pub fancy: bool,
}

impl Cfg {
    pub fn lr() -> Cfg {
        Cfg { partial: false, skip_ws: true, longest_match: true, grammar_order: true, fancy: false }
    }
    pub fn glr() -> Cfg {
        Cfg { partial: false, skip_ws: true, longest_match: true, grammar_order: false, fancy: false }
    }
}

pub struct Dyn {
    pub def: &'static DynDef,
    pub recs: &'static [Rec; MAXT],
    pub has_layout: bool,
    pub layout_state: Option<u16>,
    pub cfg: Cfg,
}

pub type LTree<'i> = TreeNode<'i, str, Pk, Tk>;
pub type LrCtx<'i> = LRContext<'i, str, St, Tk>;
pub type GlrCtx<'i> = GssHead<'i, str, St, Tk>;

impl Dyn {
    pub fn new(d: &Dump, cfg: Cfg) -> Result<Dyn, String> {
        let nterm = d.grammar.terminals.len();
        if nterm > MAXT {
            return Err("too many terminals".into());
        }
        if d.table.states.len() > 60000 {
            return Err("too many states".into());
        }
        let prod_nt: Vec<u16> = d.grammar.productions.iter().map(|p| p.nonterminal as u16).collect();
        let conv = |a: &VAction| match a {
            VAction::Shift(s) => Action::Shift(St(*s as u16)),
            VAction::Reduce(p, l) => Action::Reduce(Pk { prod: *p as u16, nt: prod_nt[*p] }, *l),
            VAction::Accept => Action::Accept,
        };
        let def = DynDef {
            actions: d.table.states.iter().map(|s| s.actions.iter().map(|c| c.iter().map(conv).collect()).collect()).collect(),
            gotos: d.table.states.iter().map(|s| s.gotos.iter().map(|g| g.map(|s| St(s as u16))).collect()).collect(),
            expected: d.table.states.iter().map(|s| s.sorted_terminals.iter().map(|(t, f)| (Tk(*t as u16), *f)).collect()).collect(),
        };
        let mut recs: Vec<Rec> = vec![];
        for (i, t) in d.grammar.terminals.iter().enumerate() {
            recs.push(if i == 0 {
                Rec::Stop
            } else {
                match &t.recognizer {
                    VRecognizer::None => Rec::Never,
                    VRecognizer::Str(s) => Rec::Str(s.clone()),
                    VRecognizer::Regex(r) => {
                        // the generated recogniser anchors the regex with '^'
                        let pat = format!("^(?:{})", r);
                        if cfg.fancy {
                            Rec::Fancy(fancy_regex::Regex::new(&pat).map_err(|e| e.to_string())?)
                        } else {
                            Rec::Regex(regex::Regex::new(&pat).map_err(|e| e.to_string())?)
                        }
                    }
                }
            });
        }
        while recs.len() < MAXT {
            recs.push(Rec::Never);
        }
        let recs: Box<[Rec; MAXT]> = match recs.into_boxed_slice().try_into() {
            Ok(b) => b,
            Err(_) => unreachable!(),
        };
        Ok(Dyn {
            def: Box::leak(Box::new(def)),
            recs: Box::leak(recs),
            has_layout: d.grammar.augmented_layout_index.is_some(),
            layout_state: d.table.layout_state.map(|s| s as u16),
            cfg,
        })
    }

    fn install(&self) {
        LAYOUT.with(|l| l.set(self.layout_state));
        LONGEST.with(|l| l.set(self.cfg.longest_match));
        GORDER.with(|l| l.set(self.cfg.grammar_order));
        STEPS.with(|s| s.set(0));
    }

    pub fn string_lexer<'i, C: Context<'i, str, St, Tk>>(&self) -> StringLexer<C, St, Tk, Rec, MAXT> {
        StringLexer::new(self.cfg.skip_ws && !self.has_layout, self.recs)
    }

    pub fn lr_parse<'i>(&self, input: &'i str) -> rustemo::Result<LTree<'i>> {
        self.lr_parse_with(input, self.string_lexer::<LrCtx<'i>>())
    }

    pub fn lr_parse_with<'i, L: Lexer<'i, LrCtx<'i>, St, Tk, Input = str>>(&self, input: &'i str, lexer: L) -> rustemo::Result<LTree<'i>> {
        self.install();
        let parser: LRParser<'_, LrCtx<'i>, St, Pk, Tk, Ntk, DynDef, L, TreeBuilder<'i, str, Pk, Tk>, str> =
            LRParser::new(self.def, St::default(), self.cfg.partial, self.has_layout, lexer, TreeBuilder::new());
        parser.parse(input)
    }

    /// One parser object for a whole history of inputs: `f` gets a closure that parses with that same object.
    pub fn lr_session<'i, R>(&self, f: impl FnOnce(&dyn Fn(&'i str) -> rustemo::Result<LTree<'i>>) -> R) -> R {
        self.install();
        let lexer = self.string_lexer::<LrCtx<'i>>();
        let parser: LRParser<'_, LrCtx<'i>, St, Pk, Tk, Ntk, DynDef, _, TreeBuilder<'i, str, Pk, Tk>, str> =
            LRParser::new(self.def, St::default(), self.cfg.partial, self.has_layout, lexer, TreeBuilder::new());
        f(&|input: &'i str| parser.parse(input))
    }

    /// One GLR parser object for a whole history of inputs.
    pub fn glr_session<'i, R>(&self, f: impl FnOnce(&dyn Fn(&'i str) -> rustemo::Result<Forest<'i, str, Pk, Tk>>) -> R) -> R {
        self.install();
        let lexer = self.string_lexer::<GlrCtx<'i>>();
        let parser: GlrParser<'i, St, _, Pk, Tk, Ntk, DynDef, str, TreeBuilder<'i, str, Pk, Tk>> = GlrParser::new(self.def, self.cfg.partial, self.has_layout, lexer);
        f(&|input: &'i str| parser.parse(input))
    }

    pub fn glr_parse<'i>(&self, input: &'i str) -> rustemo::Result<Forest<'i, str, Pk, Tk>> {
        self.glr_parse_with(input, self.string_lexer::<GlrCtx<'i>>())
    }

    pub fn glr_parse_with<'i, L: Lexer<'i, GlrCtx<'i>, St, Tk, Input = str>>(
        &self,
        input: &'i str,
        lexer: L,
    ) -> rustemo::Result<Forest<'i, str, Pk, Tk>> {
        self.install();
        let parser: GlrParser<'i, St, L, Pk, Tk, Ntk, DynDef, str, TreeBuilder<'i, str, Pk, Tk>> =
            GlrParser::new(self.def, self.cfg.partial, self.has_layout, lexer);
        parser.parse(input)
    }
}

/// One lexer call as the parser saw it: position and state at the call, kinds of the tokens returned.
pub type LexCall = (usize, u16, Vec<u16>);

/// Wraps a lexer and records every call (the LR parser shares it with its layout parser).
pub struct Tracing<L> {
    pub inner: L,
    pub log: std::rc::Rc<std::cell::RefCell<Vec<LexCall>>>,
}

impl<'i, C: Context<'i, str, St, Tk>, L: Lexer<'i, C, St, Tk, Input = str>> Lexer<'i, C, St, Tk> for Tracing<L> {
    type Input = str;
    fn next_tokens(&self, context: &mut C, input: &'i str, expected: Vec<(Tk, bool)>) -> Box<dyn Iterator<Item = Token<'i, str, Tk>> + 'i> {
        let pos = context.position().pos;
        let st = context.state().0;
        let toks: Vec<Token<'i, str, Tk>> = self.inner.next_tokens(context, input, expected).collect();
        self.log.borrow_mut().push((pos, st, toks.iter().map(|t| t.kind.0).collect()));
        Box::new(toks.into_iter())
    }
}

impl Dyn {
    /// LR parse that also returns the lexer calls made on the way.
    pub fn lr_parse_traced<'i>(&self, input: &'i str) -> (rustemo::Result<LTree<'i>>, Vec<LexCall>) {
        let log = std::rc::Rc::new(std::cell::RefCell::new(vec![]));
        let r = self.lr_parse_with(input, Tracing { inner: self.string_lexer::<LrCtx<'i>>(), log: log.clone() });
        let l = log.borrow().clone();
        (r, l)
    }
}

/// States of the Layout automaton (reachable from the layout start state).
pub fn layout_states(d: &Dump) -> std::collections::BTreeSet<usize> {
    let mut seen = std::collections::BTreeSet::new();
    let mut work: Vec<usize> = d.table.layout_state.into_iter().collect();
    while let Some(s) = work.pop() {
        if !seen.insert(s) {
            continue;
        }
        for acts in &d.table.states[s].actions {
            for a in acts {
                if let VAction::Shift(t) = a {
                    work.push(*t);
                }
            }
        }
        work.extend(d.table.states[s].gotos.iter().flatten().cloned());
    }
    seen
}

/// Runs f under catch_unwind. Err(Some(msg)) = panic with message, Err(None) = step limit.
pub fn guarded<R>(f: impl FnOnce() -> R) -> Result<R, Option<String>> {
    match std::panic::catch_unwind(std::panic::AssertUnwindSafe(f)) {
        Ok(r) => Ok(r),
        Err(p) => {
            if p.downcast_ref::<StepLimit>().is_some() {
                Err(None)
            } else if let Some(s) = p.downcast_ref::<String>() {
                Err(Some(s.clone()))
            } else if let Some(s) = p.downcast_ref::<&str>() {
                Err(Some(s.to_string()))
            } else {
                Err(Some("<non-string panic payload>".into()))
            }
        }
    }
}

/// Rendering with spans; used in reports and for LR/GLR comparison.
pub fn show(t: &LTree, out: &mut String) {
    match t {
        TreeNode::TermNode { token, .. } => {
            out.push_str(&format!("t{}[{}-{}]{:?} ", token.kind.0, token.span.start.pos, token.span.end.pos, token.value));
        }
        TreeNode::NonTermNode { prod, span, children, .. } => {
            out.push_str(&format!("(p{}[{}-{}] ", prod.prod, span.start.pos, span.end.pos));
            for c in children {
                show(c, out);
            }
            out.push_str(") ");
        }
    }
}
pub fn shown(t: &LTree) -> String {
    let mut s = String::new();
    show(t, &mut s);
    s
}

/// A token wrapper helper for custom lexers.
pub fn mk_token<'i>(kind: Tk, value: &'i str, span: rustemo::SourceSpan) -> Token<'i, str, Tk> {
    Token { kind, value, span }
}
