//! C05: (A) cell-level oracle for the documented S/R and R/R resolution rule,
//! (B) operator grammars against a precedence-climbing parser.
use crate::ag::*;
use crate::comp::*;
use crate::dynp::{self, guarded, Dyn, LTree};
use crate::gens::*;
use crate::rep::{Args, Rep};
use crate::rng::Rng;
use rustemo::TreeNode;
use rustemo_compiler::verif::{Dump, VAction};
use serde_json::{json, Value};

pub fn random_meta(g: &AG, rng: &mut Rng) -> AG {
    let mut g = g.clone();
    let prios = [5u32, 10, 15, 20];
    let assocs = [Assoc::Left, Assoc::Right, Assoc::Reduce, Assoc::Shift];
    for r in &mut g.rules {
        if rng.chance(0.15) {
            if rng.chance(0.5) {
                r.meta.prio = Some(*rng.pick(&prios));
            } else {
                r.meta.assoc = Some(*rng.pick(&assocs));
            }
        }
        for a in &mut r.alts {
            if rng.chance(0.4) {
                a.meta.prio = Some(*rng.pick(&prios));
            }
            if rng.chance(0.35) {
                a.meta.assoc = Some(*rng.pick(&assocs));
            }
            if rng.chance(0.15) {
                a.meta.nops = true;
            }
            if rng.chance(0.15) {
                a.meta.nopse = true;
            }
        }
    }
    for t in &mut g.terms {
        if rng.chance(0.3) {
            t.meta.assoc = Some(*rng.pick(&assocs));
        }
    }
    g
}

fn states_same(a: &Dump, b: &Dump) -> bool {
    a.table.states.len() == b.table.states.len()
        && a.table.states.iter().zip(b.table.states.iter()).all(|(x, y)| x.items.len() == y.items.len() && x.items.iter().zip(y.items.iter()).all(|(i, j)| i.prod == j.prod && i.position == j.position && i.follow == j.follow))
}

fn act_str(a: &VAction) -> String {
    match a {
        VAction::Shift(s) => format!("Shift({s})"),
        VAction::Reduce(p, l) => format!("Reduce(p{p},{l})"),
        VAction::Accept => "Accept".into(),
    }
}
fn acts_str(a: &[VAction]) -> String {
    format!("[{}]", a.iter().map(act_str).collect::<Vec<_>>().join(", "))
}

/// The documented rule as a pure function over a 2-candidate cell.
/// Returns the expected surviving actions (sorted) and a label of the rule that decided.
fn resolve2(dann: &Dump, state: usize, t: usize, cand: &[VAction], glr: bool, ps: bool, pse: bool) -> (Vec<VAction>, String) {
    let gr = &dann.grammar;
    let sa = &dann.table.states[state];
    let shift = cand.iter().find(|a| matches!(a, VAction::Shift(_) | VAction::Accept));
    let reds: Vec<(usize, usize)> = cand.iter().filter_map(|a| if let VAction::Reduce(p, l) = a { Some((*p, *l)) } else { None }).collect();
    let mut exp: Vec<VAction> = vec![];
    let label;
    if let Some(sh) = shift {
        let (p, l) = reds[0];
        let pr = &gr.productions[p];
        // priority of a shift = highest priority among the productions shifting t here (10 for Accept)
        let shift_prio = if matches!(sh, VAction::Accept) {
            10
        } else {
            sa.items.iter().filter(|it| gr.productions[it.prod].rhs.get(it.position).map(|a| a.symbol) == Some(t)).map(|it| gr.productions[it.prod].prio).max().unwrap_or(10)
        };
        let keep_shift;
        let keep_red;
        if pr.prio > shift_prio {
            keep_shift = false;
            keep_red = true;
            label = "sr:prio-reduce".to_string();
        } else if pr.prio < shift_prio {
            keep_shift = true;
            keep_red = false;
            label = "sr:prio-shift".to_string();
        } else {
            let (assoc, src) = if gr.terminals[t].assoc != 0 { (gr.terminals[t].assoc, "term") } else { (pr.assoc, "prod") };
            match assoc {
                1 => {
                    keep_shift = false;
                    keep_red = true;
                    label = format!("sr:assoc-left-{src}");
                }
                2 => {
                    keep_shift = true;
                    keep_red = false;
                    label = format!("sr:assoc-right-{src}");
                }
                _ => {
                    let empty = pr.rhs.is_empty();
                    let pref = (empty && pse && !pr.nopse) || (!empty && ps && !pr.nops);
                    keep_shift = true;
                    keep_red = !pref;
                    label = format!("sr:none-{}-{}", if empty { "empty" } else { "nonempty" }, if pref { "prefer-shift" } else if (empty && pse) || (!empty && ps) { "nops" } else { "kept" });
                }
            }
        }
        if keep_shift {
            exp.push(sh.clone());
        }
        if keep_red {
            exp.push(VAction::Reduce(p, l));
        }
    } else {
        let (p1, l1) = reds[0];
        let (p2, l2) = reds[1];
        let (q1, q2) = (gr.productions[p1].prio, gr.productions[p2].prio);
        if q1 > q2 {
            exp.push(VAction::Reduce(p1, l1));
            label = "rr:prio".to_string();
        } else if q2 > q1 {
            exp.push(VAction::Reduce(p2, l2));
            label = "rr:prio".to_string();
        } else if !glr && (l1 == 0) != (l2 == 0) {
            if l1 > 0 {
                exp.push(VAction::Reduce(p1, l1));
            } else {
                exp.push(VAction::Reduce(p2, l2));
            }
            label = "rr:lr-nonempty-over-empty".to_string();
        } else {
            exp.push(VAction::Reduce(p1, l1));
            exp.push(VAction::Reduce(p2, l2));
            label = "rr:kept".to_string();
        }
    }
    exp.sort();
    (exp, label)
}

/// The same grammar written in another order: start rule first, the other rules and all alternatives reversed.
pub fn permuted(g: &AG) -> AG {
    let n = g.rules.len();
    let newpos = |old: usize| if old == 0 { 0 } else { n - old };
    let mut rules: Vec<Rule> = vec![g.rules[0].clone()];
    for old in (1..n).rev() {
        rules.push(g.rules[old].clone());
    }
    for r in &mut rules {
        r.alts.reverse();
        for a in &mut r.alts {
            for s in &mut a.syms {
                if let Sym::N(k) = s {
                    *k = newpos(*k);
                }
            }
        }
    }
    AG { terms: g.terms.clone(), rules }
}

pub struct Variant {
    pub ann: AG,
    pub glr: bool,
    pub ps: bool,
    pub pse: bool,
    pub tt: u8,
}

pub fn judge_variant(base: &AG, v: &Variant, wd: &Workdir, rep: &mut Rep) {
    let raw_text = base.strip_meta().text();
    let ann_text = v.ann.text();
    let raw_spec = SetSpec::raw(v.tt);
    // half of the LR variants choose the algorithm the way rcomp does: explicitly and after the shift preferences
    let ann_spec = SetSpec { glr: v.glr, table: Some(v.tt), ps: Some(v.ps), pse: Some(v.pse), algo_last: !v.glr && fnv(&ann_text) % 2 == 0, ..Default::default() };
    let case = |extra: Value| json!({"grammar": ann_text, "ag": v.ann.to_json(), "settings": ann_spec.to_json(), "extra": extra});
    let sig = |k: &str| format!("{}:{}:{}", k, fnv(&ann_text), fnv(&ann_spec.to_json().to_string()));
    crate::rep::watchdog::set(|| case(json!(null)).to_string());
    let raw = wd.compile(&raw_text, &raw_spec);
    if let Outcome::Panic(m) = &raw.outcome {
        rep.violation("C05", &sig("raw-panic"), &format!("compiler aborted on the grammar without meta-data: {}", m), case(json!({"raw": true})));
        return;
    }
    let Some(draw) = raw.dump else {
        rep.count("rejected_before_table", 1);
        return;
    };
    let ann = wd.compile(&ann_text, &ann_spec);
    rep.count("compilations", 1);
    if let Outcome::Panic(m) = &ann.outcome {
        rep.violation("C05", &sig("panic"), &format!("resolving conflicts aborted the compiler: {}", m), case(json!(null)));
        return;
    }
    let Some(dann) = ann.dump else {
        rep.harness_error("annotated grammar rejected before the table although the raw grammar is not", case(json!({"outcome": ann.outcome.show()})));
        return;
    };
    if !states_same(&draw, &dann) {
        rep.harness_error("automaton states differ between raw and annotated grammar (meta-data should not affect them)", case(json!(null)));
        return;
    }
    let nterm = dann.grammar.terminals.len();
    let mut any_multi = false;
    for (si, (sr, sa)) in draw.table.states.iter().zip(dann.table.states.iter()).enumerate() {
        for t in 0..nterm {
            let cand = &sr.actions[t];
            let got = &sa.actions[t];
            if got.len() > 1 {
                any_multi = true;
            }
            let mut gs = got.clone();
            gs.sort();
            let cell = |exp: Option<&Vec<VAction>>| json!({"state": si, "terminal": dann.grammar.terminals[t].name, "candidates": acts_str(cand), "kept": acts_str(got), "expected": exp.map(|e| acts_str(e))});
            if cand.len() <= 1 {
                let mut c = cand.clone();
                c.sort();
                if c != gs {
                    rep.violation("C05", &sig("single"), &format!("a cell without conflict changed: {} -> {}", acts_str(cand), acts_str(got)), case(cell(None)));
                }
                continue;
            }
            rep.count("evaluations", 1);
            if got.is_empty() || !got.iter().all(|a| cand.contains(a)) || gs.windows(2).any(|w| w[0] == w[1]) {
                rep.violation("C05", &sig("subset"), &format!("resolved cell {} is not a non-empty duplicate-free subset of the candidates {}", acts_str(got), acts_str(cand)), case(cell(None)));
                continue;
            }
            if cand.len() > 2 {
                rep.count("cells_multiway_weak_check", 1);
                continue;
            }
            // LR algorithm on an RN table: "empty" is ambiguous there, not judged (DESIGN C05)
            if !v.glr && v.tt == 2 {
                rep.count("cells_lr_on_rn_not_judged", 1);
                continue;
            }
            rep.count("cells_two_candidates", 1);
            let (exp, label) = resolve2(&dann, si, t, cand, v.glr, v.ps, v.pse);
            rep.distinct("nontrivial", fnv(&format!("{}|glr{}|ps{}|pse{}", label, v.glr, v.ps, v.pse)));
            rep.distinct(&format!("rule:{}", label), fnv(&format!("{}{}{}", ann_text, si, t)));
            if exp != gs {
                rep.violation("C05", &sig(&format!("cell:{}", label)), &format!("state {} on {}: candidates {} resolved to {} but the documented rule ({}) keeps {}", si, dann.grammar.terminals[t].name, acts_str(cand), acts_str(got), label, acts_str(&exp)), case(cell(Some(&exp))));
            }
        }
    }
    // The documented rule is a function of priorities, associativities and settings only: writing the same rules and
    // alternatives in another order must not change whether LR mode reports a conflict.
    if !v.glr {
        let multiway = draw.table.states.iter().any(|s| s.actions.iter().any(|c| c.len() > 2));
        let perm = permuted(&v.ann);
        let pc = wd.compile(&perm.text(), &ann_spec);
        rep.count("order_permutations_compiled", 1);
        if multiway {
            rep.count("order_permutations_with_multiway_cell", 1);
        }
        if !pc.outcome.is_panic() && pc.outcome.is_ok() != ann.outcome.is_ok() {
            let what = format!("LR mode returns {} for the grammar and {} for the same rules written in another order", ann.outcome.show().chars().take(80).collect::<String>(), pc.outcome.show().chars().take(80).collect::<String>());
            let s = if multiway { "order-dependence:multiway-cell".to_string() } else { sig("order-dependence") };
            rep.violation("C05", &s, &what, case(json!({"permuted_grammar": perm.text(), "multiway_cell": multiway})));
        }
    }
    if !v.glr {
        let ok = ann.outcome.is_ok();
        if ok == any_multi {
            rep.violation("C05", &sig("lr-report"), &format!("LR mode returned {} although {} cell keeps more than one action", ann.outcome.show(), if any_multi { "a" } else { "no" }), case(json!(null)));
        }
    } else if !ann.outcome.is_ok() {
        rep.violation("C05", &sig("glr-report"), &format!("GLR mode must keep unresolved conflicts but returned {}", ann.outcome.show()), case(json!(null)));
    }
}

// ---------------------------------------------------------------- (B) operator grammars

#[derive(Clone, Debug)]
pub struct Op {
    pub lit: &'static str,
    pub name: &'static str,
    pub prio: u32,
    pub right: bool,
    /// where the associativity is written: 0 production, 1 terminal, 2 nowhere (prefer_shifts decides)
    pub at: u8,
}

pub struct ExprG {
    pub ops: Vec<Op>,
    pub ps: bool,
    pub text: String,
}

const OPS: [(&str, &str); 6] = [("+", "Plus"), ("-", "Minus"), ("*", "Mul"), ("/", "Div"), ("^", "Pow"), ("%", "Mod")];

pub fn gen_expr(rng: &mut Rng) -> ExprG {
    let n = rng.range(2, 5);
    let levels = [5u32, 10, 15, 20, 25];
    let nlev = rng.range(1, 4);
    // associativity is a property of the level (conventional precedence tables)
    let lev_right: Vec<bool> = (0..nlev).map(|_| rng.chance(0.4)).collect();
    let lev_at: Vec<u8> = (0..nlev).map(|_| [0u8, 1, 3][rng.below(3)]).collect(); // 0 production, 1 terminal, 3 both
    let none_mode = rng.chance(0.15); // no associativity anywhere: prefer_shifts => right
    let ps = none_mode || rng.chance(0.3);
    let mut ops = vec![];
    for i in 0..n {
        let l = rng.below(nlev);
        let right = if none_mode { true } else { lev_right[l] };
        // where the level's associativity is written is a choice per level: the S/R rule looks at the
        // look-ahead *terminal* first and then at the *production* being reduced, so mixing the two
        // places inside one level would leave pairs undecided (not a conventional precedence table)
        ops.push(Op { lit: OPS[i].0, name: OPS[i].1, prio: levels[l], right, at: if none_mode { 2 } else { lev_at[l] } });
    }
    let kw = |right: bool, rng: &mut Rng| if right { *rng.pick(&["right", "shift"]) } else { *rng.pick(&["left", "reduce"]) };
    let mut text = String::from("E: ");
    let mut alts = vec![];
    for o in &ops {
        let mut m = vec![];
        if o.prio != 10 || rng.chance(0.3) {
            m.push(o.prio.to_string());
        }
        if o.at == 0 || o.at == 3 {
            m.push(kw(o.right, rng).to_string());
        }
        alts.push(format!("E {} E{}", o.name, if m.is_empty() { String::new() } else { format!(" {{{}}}", m.join(", ")) }));
    }
    alts.push("LP E RP".into());
    alts.push("Num".into());
    text.push_str(&alts.join("\n | "));
    text.push_str(";\nterminals\n");
    for o in &ops {
        let m = if o.at == 1 || o.at == 3 { format!(" {{{}}}", kw(o.right, rng)) } else { String::new() };
        text.push_str(&format!("{}: '{}'{};\n", o.name, o.lit, m));
    }
    text.push_str("LP: '(';\nRP: ')';\nNum: /\\d+/;\n");
    ExprG { ops, ps, text }
}

#[derive(Clone, Debug)]
pub enum Tok {
    Num(String),
    Op(usize),
    LP,
    RP,
}

pub fn gen_expr_input(e: &ExprG, rng: &mut Rng, depth: usize) -> Vec<Tok> {
    let mut out = vec![];
    let nops = rng.range(1, 7);
    let operand = |rng: &mut Rng, out: &mut Vec<Tok>| {
        if depth < 2 && rng.chance(0.15) {
            out.push(Tok::LP);
            out.extend(gen_expr_input(e, rng, depth + 1));
            out.push(Tok::RP);
        } else {
            out.push(Tok::Num(rng.range(0, 99).to_string()));
        }
    };
    operand(rng, &mut out);
    for _ in 0..nops {
        out.push(Tok::Op(rng.below(e.ops.len())));
        operand(rng, &mut out);
    }
    out
}

/// Precedence climbing: the tree conventional precedence/associativity prescribe.
pub fn prec_parse(e: &ExprG, toks: &[Tok], pos: &mut usize, min_prio: u32) -> String {
    let mut lhs = match &toks[*pos] {
        Tok::Num(n) => {
            *pos += 1;
            n.clone()
        }
        Tok::LP => {
            *pos += 1;
            let inner = prec_parse(e, toks, pos, 0);
            *pos += 1; // RP
            format!("[{}]", inner)
        }
        _ => panic!("operand expected"),
    };
    while *pos < toks.len() {
        let Tok::Op(o) = &toks[*pos] else { break };
        let op = &e.ops[*o];
        if op.prio < min_prio {
            break;
        }
        *pos += 1;
        let next_min = if op.right { op.prio } else { op.prio + 1 };
        let rhs = prec_parse(e, toks, pos, next_min);
        lhs = format!("({}{}{})", lhs, op.lit, rhs);
    }
    lhs
}

fn fold_tree(t: &LTree) -> String {
    match t {
        TreeNode::TermNode { token, .. } => token.value.to_string(),
        TreeNode::NonTermNode { children, .. } => match children.len() {
            1 => fold_tree(&children[0]),
            3 => {
                let a = fold_tree(&children[0]);
                let b = fold_tree(&children[1]);
                let c = fold_tree(&children[2]);
                if a == "(" {
                    format!("[{}]", b)
                } else {
                    format!("({}{}{})", a, b, c)
                }
            }
            _ => "?".into(),
        },
    }
}

fn lex_expr(e: &ExprG, input: &str) -> Vec<Tok> {
    let mut out = vec![];
    let b: Vec<char> = input.chars().collect();
    let mut i = 0;
    while i < b.len() {
        let c = b[i];
        if c.is_whitespace() {
            i += 1;
        } else if c.is_ascii_digit() {
            let mut n = String::new();
            while i < b.len() && b[i].is_ascii_digit() {
                n.push(b[i]);
                i += 1;
            }
            out.push(Tok::Num(n));
        } else if c == '(' {
            out.push(Tok::LP);
            i += 1;
        } else if c == ')' {
            out.push(Tok::RP);
            i += 1;
        } else {
            let o = e.ops.iter().position(|o| o.lit.starts_with(c)).expect("operator");
            out.push(Tok::Op(o));
            i += 1;
        }
    }
    out
}

pub fn judge_expr(e: &ExprG, wd: &Workdir, rep: &mut Rep, rng: &mut Rng, ninputs: usize, fixed: &[String]) {
    let spec = SetSpec { ps: Some(e.ps), ..SetSpec::lr(if rng.chance(0.5) { 0 } else { 1 }) };
    let case = |extra: Value| json!({"grammar": e.text, "settings": spec.to_json(), "kind": "expr", "ops": e.ops.iter().map(|o| json!({"lit": o.lit, "prio": o.prio, "right": o.right, "at": o.at})).collect::<Vec<_>>(), "extra": extra});
    let sig = |k: &str, x: &str| format!("expr-{}:{}:{}", k, fnv(&e.text), fnv(x));
    crate::rep::watchdog::set(|| case(json!(null)).to_string());
    let c = wd.compile(&e.text, &spec);
    rep.count("expr_grammars", 1);
    match &c.outcome {
        Outcome::Panic(m) => {
            rep.violation("C05", &sig("panic", ""), &format!("compiler aborted on an annotated operator grammar: {}", m), case(json!(null)));
            return;
        }
        Outcome::Err(m) => {
            rep.violation("C05", &sig("rejected", ""), &format!("fully annotated operator grammar is reported as conflicting: {}", m.chars().take(200).collect::<String>()), case(json!(null)));
            return;
        }
        Outcome::Ok => {}
    }
    let d = c.dump.unwrap();
    let dy = match Dyn::new(&d, spec.dyn_cfg()) {
        Ok(d) => d,
        Err(e) => {
            rep.harness_error(&e, case(json!(null)));
            return;
        }
    };
    let mut same_level_pairs = false;
    for a in &e.ops {
        for b in &e.ops {
            if a.lit != b.lit && a.prio == b.prio {
                same_level_pairs = true;
            }
        }
    }
    let mut cases: Vec<(Vec<Tok>, String)> = vec![];
    for fi in fixed {
        cases.push((lex_expr(e, fi), fi.clone()));
    }
    for _ in 0..ninputs {
        let toks = gen_expr_input(e, rng, 0);
        let mut input = String::new();
        for t in &toks {
            if !input.is_empty() && rng.chance(0.7) {
                input.push(' ');
            }
            match t {
                Tok::Num(n) => {
                    if input.ends_with(|c: char| c.is_ascii_digit()) {
                        input.push(' ');
                    }
                    input.push_str(n)
                }
                Tok::Op(o) => input.push_str(e.ops[*o].lit),
                Tok::LP => input.push('('),
                Tok::RP => input.push(')'),
            }
        }
        cases.push((toks, input));
    }
    for (toks, input) in cases {
        let mut pos = 0;
        let exp = prec_parse(e, &toks, &mut pos, 0);
        dynp::set_step_limit(2_000_000);
        rep.count("evaluations", 1);
        rep.count("expr_inputs", 1);
        match guarded(|| dy.lr_parse(&input).map(|t| fold_tree(&t))) {
            Ok(Ok(got)) => {
                if got != exp {
                    rep.violation("C05", &sig("tree", &input), &format!("operator grammar parses {:?} as {} but precedence/associativity prescribe {}", input, got, exp), case(json!({"input": input})));
                } else {
                    rep.distinct("expr_nontrivial", fnv(&format!("{}|{}", e.text, input)));
                    rep.distinct("nontrivial", fnv(&format!("expr|levels{}|same{}|ps{}", e.ops.iter().map(|o| o.prio).collect::<std::collections::BTreeSet<_>>().len(), same_level_pairs, e.ps)));
                }
            }
            Ok(Err(er)) => rep.violation("C05", &sig("reject", &input), &format!("operator grammar rejects the expression {:?}: {}", input, er.to_pos_str().replace('\n', " ")), case(json!({"input": input}))),
            Err(pm) => rep.violation("C05", &sig("parse-panic", &input), &format!("parser panicked on {:?}: {:?}", input, pm), case(json!({"input": input}))),
        }
    }
    rep.sample(json!({"kind": "operator grammar", "grammar": e.text, "prefer_shifts": e.ps}));
}

pub fn main(a: &Args) {
    let mut rep = Rep::new(a.out.as_deref());
    rep.max_samples = 4;
    let wd = Workdir::new("c05");
    if let Some(path) = &a.replay {
        let v: Value = serde_json::from_str(&std::fs::read_to_string(path).expect("read replay")).expect("json");
        let case = &v["case"];
        if case["kind"].as_str() == Some("expr") {
            replay_expr(case, &wd, &mut rep);
        } else {
            let ann = AG::from_json(&case["ag"]);
            let s = SetSpec::from_json(&case["settings"]);
            let var = Variant { ann: ann.clone(), glr: s.glr, ps: s.ps.unwrap_or(false), pse: s.pse.unwrap_or(false), tt: s.table.unwrap_or(1) };
            judge_variant(&ann, &var, &wd, &mut rep);
        }
        rep.finish();
        return;
    }
    let n = if a.thorough { a.n.unwrap_or(2500) } else { a.n.unwrap_or(150) };
    let mut rng = a.rng(5);
    let mut bases: Vec<AG> = vec![];
    if a.shard == 0 {
        bases.extend(corpus().into_iter().map(|x| x.1));
    }
    let mut i = 0;
    while (i < n || !bases.is_empty()) && rep.elapsed() < a.max_s {
        let base = if let Some(b) = bases.pop() {
            b
        } else {
            i += 1;
            if i % 4 == 0 {
                let e = gen_expr(&mut rng);
                judge_expr(&e, &wd, &mut rep, &mut rng, if a.thorough { 40 } else { 20 }, &[]);
                continue;
            }
            let o = if i % 5 == 1 { BnfOpts { max_nt: 5, max_t: 4, max_alts: 4, max_len: 4, p_empty: 0.2 } } else { BnfOpts { p_empty: 0.2, ..BnfOpts::default() } };
            let g = gen_bnf(&mut rng, &o);
            if !g.reduced() || g.cyclic() {
                rep.count("grammars_skipped", 1);
                continue;
            }
            g
        };
        rep.count("base_grammars", 1);
        for _ in 0..3 {
            let glr = rng.chance(0.5);
            let var = Variant { ann: random_meta(&base, &mut rng), glr, ps: rng.chance(0.5), pse: rng.chance(0.5), tt: if glr { rng.below(3) as u8 } else { rng.below(2) as u8 } };
            judge_variant(&base, &var, &wd, &mut rep);
            if rep.samples.len() < 2 {
                rep.sample(json!({"kind": "cell oracle", "grammar": var.ann.text(), "glr": var.glr, "prefer_shifts": var.ps, "prefer_shifts_over_empty": var.pse, "table": table_name(var.tt)}));
            }
        }
    }
    rep.finish();
}

fn replay_expr(case: &Value, wd: &Workdir, rep: &mut Rep) {
    let ops: Vec<Op> = case["ops"]
        .as_array()
        .unwrap()
        .iter()
        .map(|o| {
            let lit = o["lit"].as_str().unwrap();
            let k = OPS.iter().find(|x| x.0 == lit).unwrap();
            Op { lit: k.0, name: k.1, prio: o["prio"].as_u64().unwrap() as u32, right: o["right"].as_bool().unwrap(), at: o["at"].as_u64().unwrap() as u8 }
        })
        .collect();
    let s = SetSpec::from_json(&case["settings"]);
    let e = ExprG { ops, ps: s.ps.unwrap_or(false), text: case["grammar"].as_str().unwrap().to_string() };
    // re-run with fresh random inputs; plus the recorded input if present
    let mut rng = Rng::new(7);
    let fixed: Vec<String> = case["extra"]["input"].as_str().map(|s| vec![s.to_string()]).unwrap_or_default();
    judge_expr(&e, wd, rep, &mut rng, 60, &fixed);
}
