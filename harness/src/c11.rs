//! C11 (generation side): whenever the compiler accepts a grammar under a
//! setting combination, the files it wrote are put into a scratch crate; the
//! driver type-checks the crates with rustc (`cargo check`) and attributes
//! every diagnostic to its module.
use crate::astgen::*;
use crate::comp::*;
use crate::gens::*;
use crate::groute::*;
use crate::rep::{Args, Rep};
use crate::rng::Rng;
use serde_json::{json, Value};
use std::path::Path;

/// Accepted or refused is the compiler's business (C16); whatever it accepts must compile.
const NAME_SHAPES: &[&str] = &[
    // rule name + kind of one production reads like another rule's name + P<n>
    "Item: Ta {sP1} | Tb;\nItems: Tb Ta;\nterminals\nTa: 'a';\nTb: 'b';\n",
    "Decl: Arg ArgP1;\nArg: Ta {P1P1} | Tb Ta;\nArgP1: Tb;\nterminals\nTa: 'a';\nTb: 'b';\n",
    // a rule whose name ends like a generated production / choice name
    "Stmt: StmtP1 Ta | Tb;\nStmtP1: Ta Tb | Tb;\nterminals\nTa: 'a';\nTb: 'b';\n",
    "Body: BodyC1 Ta | Tb Tb;\nBodyC1: Ta Tb | Tb;\nterminals\nTa: 'a';\nTb: 'b';\n",
    // assignment names that are not snake case
    "@vec\nElem: Elem Item | firstB=Item;\nItem: Ta | Tb;\nterminals\nTa: 'a';\nTb: 'b';\n",
    "Decl: lastItem=Item nextOne=Item | X=Item;\nItem: Ta | Tb;\nterminals\nTa: 'a';\nTb: 'b';\n",
    // terminal and rule names that differ in case only / equal a kind
    "Part: part Ta | Tb;\nterminals\nTa: 'a';\nTb: 'b';\npart: 'p';\n",
    "Elem: Ta Tb {Tb} | Tb {Ta};\nterminals\nTa: 'a';\nTb: 'b';\n",
    // one field name twice in the struct of a production: the same assignment name, an assignment named like the
    // field deduced for another reference, two references whose names differ in case only
    "Decl: x=Item x=Item | Tb;\nItem: Ta | Tb;\nterminals\nTa: /a/;\nTb: /b/;\n",
    "Decl: item=Arg Item | Tb;\nItem: Ta | Tb;\nArg: Ta Tb;\nterminals\nTa: /a/;\nTb: /b/;\n",
    "Decl: Item ITEM | Tb;\nItem: Ta | Tb;\nITEM: Tb Ta;\nterminals\nTa: /a/;\nTb: /b/;\n",
];

pub fn random_config(rng: &mut Rng, k: usize) -> SetSpec {
    // k walks through the lattice so that every value of every dimension appears often
    let glr = (k & 1) == 1;
    SetSpec {
        glr,
        builder: ((k >> 1) % 3) as u8,
        gen_table: ((k >> 3) & 1) as u8,
        loc_info: rng.chance(0.4),
        fancy: rng.chance(0.3),
        custom_lexer: rng.chance(0.25),
        ps: if glr { None } else { Some(true) },
        partial: rng.chance(0.2),
        // every table type under both algorithms (LALR_RN tables in LR parsers, plain LALR tables in GLR parsers)
        table: if rng.chance(0.5) { Some(rng.below(3) as u8) } else { None },
        skip_ws: rng.chance(0.8),
        ms: rng.chance(0.7),
        lm: rng.chance(0.7),
        go: if rng.chance(0.3) { Some(rng.chance(0.5)) } else { None },
        pse: if rng.chance(0.2) { Some(true) } else { None },
        ..Default::default()
    }
}

/// `A: x | y;` -> `A: x;\nA: y;` for one random rule of a generated text (no `|` occurs inside their recognisers).
pub fn split_one_rule(text: &str, rng: &mut Rng, rep: &mut Rep) -> String {
    let Some(tpos) = text.find("terminals\n") else { return text.to_string() };
    let (rules, rest) = text.split_at(tpos);
    let defs: Vec<&str> = rules.split(";\n").filter(|d| !d.trim().is_empty()).collect();
    let cand: Vec<usize> = (0..defs.len()).filter(|&i| defs[i].contains('|') && !defs[i].trim_start().starts_with('@') && !defs[i].contains('{') || false).collect();
    // rules with meta-data blocks in front of the colon are left alone; production meta-data after an alternative is fine
    let cand: Vec<usize> = if cand.is_empty() { (0..defs.len()).filter(|&i| defs[i].contains('|') && !defs[i].trim_start().starts_with('@') && defs[i].find('{').map_or(true, |b| b > defs[i].find(':').unwrap_or(0))).collect() } else { cand };
    if cand.is_empty() {
        return text.to_string();
    }
    let k = *rng.pick(&cand);
    let d = defs[k];
    let colon = d.find(':').unwrap();
    let name = d[..colon].trim();
    let bar = d.find('|').unwrap();
    let first = d[colon + 1..bar].trim();
    let second = d[bar + 1..].trim();
    let mut out = String::new();
    for (i, x) in defs.iter().enumerate() {
        if i == k {
            out.push_str(&format!("{}: {};\n{}: {};\n", name, first, name, second));
        } else {
            out.push_str(x);
            out.push_str(";\n");
        }
    }
    out.push_str(rest);
    rep.count("grammars_with_a_rule_written_twice", 1);
    out
}

pub fn emit(krate: &mut Crate, text: &str, origin: &str, spec: &SetSpec, rep: &mut Rep) {
    let m = format!("g{}", krate.modules.len());
    let c = generate_into(&krate.src(), &m, text, spec);
    rep.count("evaluations", 1);
    let rm = |suffix: &str| {
        let _ = std::fs::remove_file(krate.src().join(format!("{}{}", m, suffix)));
    };
    if !c.outcome.is_ok() {
        rep.count(if c.outcome.is_panic() { "compiler_panics_not_judged_here" } else { "rejected_by_compiler" }, 1);
        rm(".rustemo");
        rm(".rs");
        rm("_actions.rs");
        return;
    }
    rep.count("accepted", 1);
    let has_actions = krate.src().join(format!("{}_actions.rs", m)).exists();
    if has_actions && spec.custom_lexer {
        // with a custom lexer the actions import the input type from the user's <name>_lexer module
        std::fs::write(krate.src().join(format!("{}_lexer.rs", m)), "pub type Input = str;\n").unwrap();
        krate.extra_mods.push(format!("{}_lexer", m));
    }
    if has_actions {
        krate.extra_mods.push(format!("{}_actions", m));
    }
    krate.modules.push(Module {
        name: m.clone(),
        check_fn: format!("fn check_{m}() {{}}\n"),
        expected: vec![],
        info: json!({"grammar": text, "origin": origin, "settings": spec.to_json(), "has_actions": has_actions}),
    });
}

pub fn main(a: &Args) {
    let mut rep = Rep::new(a.out.as_deref());
    let mut rng = a.rng(11);
    let dir = a.extra.get("crate-dir").expect("--crate-dir");
    let mut krate = Crate::new(Path::new(dir));
    if let Some(path) = &a.replay {
        let v: Value = serde_json::from_str(&std::fs::read_to_string(path).expect("read replay")).expect("json");
        let info = &v["case"]["info"];
        emit(&mut krate, info["grammar"].as_str().unwrap(), "replay", &SetSpec::from_json(&info["settings"]), &mut rep);
    } else {
        let n = a.n.unwrap_or(6);
        let per = if a.thorough { 6 } else { 4 };
        let mut k = a.shard as usize * 7;
        if a.shard == 2 {
            // hand-written shapes around the names the generator derives (ProdKind = rule name + kind / P<n>)
            for text in NAME_SHAPES {
                for j in 0..2 {
                    k += 1;
                    let mut spec = random_config(&mut rng, k);
                    if j == 0 {
                        // types and actions are deduced by the default builder only
                        spec.builder = 0;
                    }
                    emit(&mut krate, text, "name-shapes", &spec, &mut rep);
                }
            }
        }
        for i in 0..n {
            let (origin, text) = match i % 4 {
                3 => {
                    // plain BNF incl. unreachable rules and recursive cycles
                    let mut g = gen_bnf(&mut rng, &BnfOpts { max_nt: 5, max_t: 4, max_alts: 3, max_len: 4, p_empty: 0.2 });
                    // names from the safe pool (single letters like `C` collide with identifiers the generator imports)
                    for (i, r) in g.rules.iter_mut().enumerate() {
                        r.name = ["Expr", "Stmt", "Item", "Decl", "Arg", "Body"][i].to_string();
                    }
                    for (i, t) in g.terms.iter_mut().enumerate() {
                        t.name = ["Ta", "Tb", "Tc", "Td", "Te"][i].to_string();
                    }
                    ("bnf", g.text())
                }
                2 if i % 8 == 2 => ("choice-names", crate::c17::choice_name_stress(&mut rng)),
                _ => ("ast", gen_ast(&mut rng).text()),
            };
            // sometimes one rule is written as two definitions of the same name (`A: x; A: y;`)
            let text = if rng.chance(0.1) { split_one_rule(&text, &mut rng, &mut rep) } else { text };
            for _ in 0..per {
                k += 1;
                let spec = random_config(&mut rng, k);
                emit(&mut krate, &text, origin, &spec, &mut rep);
            }
        }
    }
    krate.finish(&format!("s{}", a.shard));
    rep.finish();
}
