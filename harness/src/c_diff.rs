//! Differential worker for C01, C03, C07, C12, C13: real LR / GLR parsers
//! (dynamic route) against the derivation enumerator and the Earley recogniser.
//! One workload, verdicts only for the property asked for with --prop.
use crate::ag::*;
use crate::comp::*;
use crate::dynp::{self, guarded, Dyn, LTree};
use crate::enumr::*;
use crate::gens::*;
use crate::rep::{Args, Rep};
use crate::tree::*;
use rustemo::TreeBuilder;
use rustemo_compiler::verif::Dump;
use serde_json::{json, Value};

pub const STEP_BUDGET: u64 = 3_000_000;

pub struct LrSide {
    pub table: u8,
    pub dump: Dump,
    pub dy: Dyn,
}

pub struct Prepared {
    pub g: AG,
    pub text: String,
    pub cyclic: bool,
    pub glr_scope: bool,
    pub glr: Option<(Dump, Dyn)>,
    pub lr: Vec<LrSide>,
    pub lex: bool,
    /// 0 = default whitespace skipping; 1..6 = user Layout rule family (c14::layout_rules)
    pub family: u8,
}

fn tables_equal(a: &Dump, b: &Dump) -> bool {
    a.table.states.len() == b.table.states.len()
        && a.table.states.iter().zip(b.table.states.iter()).all(|(x, y)| {
            x.actions == y.actions && x.gotos == y.gotos && x.items.len() == y.items.len() && x.items.iter().zip(y.items.iter()).all(|(i, j)| i.prod == j.prod && i.position == j.position && i.follow == j.follow)
        })
}

pub fn conflict_free(d: &Dump) -> bool {
    d.table.states.iter().all(|s| s.actions.iter().all(|a| a.len() <= 1))
}

/// Compile the grammar every way the family needs. Violations of the "in scope
/// ⇒ compiles, nothing resolved" premise are reported under C01.
pub fn prepare(g: &AG, wd: &Workdir, rep: &mut Rep, prop: &str, family: u8) -> Option<Prepared> {
    let text = if family > 0 { crate::c14::grammar_text(g, family) } else { g.text() };
    let cyclic = g.cyclic();
    let glr_scope = g.glr_scope();
    let agj = g.to_json();
    let case = |extra: Value| json!({"grammar": text, "ag": agj, "extra": extra});
    let cg = wd.compile(&text, &SetSpec::glr());
    let glr = match (&cg.outcome, cg.dump) {
        (Outcome::Ok, Some(d)) => match Dyn::new(&d, dynp::Cfg::glr()) {
            Ok(dy) => Some((d, dy)),
            Err(e) => {
                rep.harness_error(&format!("Dyn::new: {}", e), case(json!(null)));
                None
            }
        },
        (o, _) => {
            // reduced grammar with literal terminals: GLR generation has no reason to fail
            // (a cyclic grammar, e.g. `S: S`, is legitimately rejected: out of C03's scope)
            if prop == "C03" && glr_scope {
                rep.violation("C03", &format!("glr-compile:{}", fnv(&text)), &format!("GLR parser not generated for a reduced grammar: {}", o.show()), case(json!({"settings": SetSpec::glr().to_json()})));
            }
            None
        }
    };
    let mut lr = vec![];
    for tt in [0u8, 1u8] {
        let raw = wd.compile(&text, &SetSpec::raw(tt));
        let Some(draw) = raw.dump else { continue };
        if raw.outcome.is_panic() || !conflict_free(&draw) {
            continue;
        }
        // in scope: conflict-free without any disambiguation
        let c = wd.compile(&text, &SetSpec::lr(tt));
        match (&c.outcome, c.dump) {
            (Outcome::Ok, Some(d)) => {
                if !tables_equal(&d, &draw) {
                    if prop == "C01" {
                        rep.violation("C01", &format!("lr-table-differs:{}", fnv(&text)), "LR-mode table differs from the unresolved table of a conflict-free grammar (a disambiguation took effect)", case(json!({"table": table_name(tt)})));
                    }
                    continue;
                }
                match Dyn::new(&d, dynp::Cfg::lr()) {
                    Ok(dy) => lr.push(LrSide { table: tt, dump: d, dy }),
                    Err(e) => rep.harness_error(&format!("Dyn::new: {}", e), case(json!(null))),
                }
            }
            (o, _) => {
                if prop == "C01" {
                    rep.violation("C01", &format!("lr-compile:{}", fnv(&text)), &format!("conflict-free grammar rejected in LR mode ({}): {}", table_name(tt), o.show()), case(json!({"table": table_name(tt)})));
                }
            }
        }
    }
    Some(Prepared { g: g.clone(), text, cyclic, glr_scope, glr, lr, lex: false, family })
}

fn err_info(e: &rustemo::Error) -> (Option<rustemo::SourceSpan>, String) {
    match e {
        rustemo::Error::ParseError(pe) => (pe.span, pe.message.clone()),
        rustemo::Error::IOError(e) => (None, format!("io: {e}")),
    }
}

/// C12 judgement on one error value.
fn judge_error(e: &rustemo::Error, input: &str, expected_pos: usize) -> Vec<String> {
    let mut errs = vec![];
    let (span, msg) = err_info(e);
    match span {
        None => errs.push("error carries no position".to_string()),
        Some(sp) => {
            if sp.start.pos != expected_pos {
                errs.push(format!("error offset {} but the first offending token starts at {}", sp.start.pos, expected_pos));
            }
            if sp.start.pos <= input.len() {
                match sp.start.line_col {
                    None => errs.push("error position has no line/column".into()),
                    Some(lc) => {
                        let (l, c) = line_col(input, sp.start.pos);
                        if (lc.line, lc.column) != (l, c) {
                            errs.push(format!("error line/col ({},{}) inconsistent with byte offset {} (expected ({},{}))", lc.line, lc.column, sp.start.pos, l, c));
                        }
                    }
                }
            }
        }
    }
    if !(msg.starts_with("Expected ") && msg.contains("Tk(")) {
        errs.push(format!("message lists no expected token: {:?}", msg));
    }
    errs
}

pub struct InputCase {
    pub w: Vec<usize>,
    pub input: String,
    pub toks: Vec<(usize, usize, usize)>,
    /// a character that is neither whitespace nor part of any token, written at this byte offset in front of token
    /// number .1 (or behind the last token): the input is no sentence whatever the tokens are
    pub foreign: Option<(usize, usize)>,
}

/// Characters no terminal of the generated grammars contains and that are not whitespace (char::is_whitespace / \s).
pub const FOREIGN: [char; 12] = ['\u{0}', '\u{1}', '\u{8}', '\u{e}', '\u{1b}', '\u{1f}', '\u{7f}', '\u{200b}', '\u{feff}', '§', '\u{ad}', '\u{180e}'];

/// Writes a foreign character directly in front of a token (or directly behind the last one).
pub fn with_foreign(input: &str, w: &[usize], toks: &[(usize, usize, usize)], rng: &mut crate::rng::Rng, family: u8) -> InputCase {
    // with block comments in the Layout rule: also a comment that is never closed (the rest of the input is inside it)
    let c: String = if crate::c14::lang_of(family) == 3 && rng.chance(0.35) { "/* x".to_string() } else { rng.pick(&FOREIGN).to_string() };
    let j = rng.below(toks.len() + 1);
    let at = if j < toks.len() { toks[j].1 } else { toks.last().map(|t| t.2).unwrap_or(0) };
    let mut s = String::with_capacity(input.len() + 5);
    s.push_str(&input[..at]);
    s.push_str(&c);
    // sometimes glued to the next token, sometimes followed by a blank
    let mut shift = c.len();
    if rng.chance(0.5) {
        s.push(' ');
        shift += 1;
    }
    s.push_str(&input[at..]);
    let toks2 = toks.iter().enumerate().map(|(k, t)| if k >= j { (t.0, t.1 + shift, t.2 + shift) } else { *t }).collect();
    InputCase { w: w.to_vec(), input: s, toks: toks2, foreign: Some((at, j)) }
}

pub fn judge_input(p: &Prepared, ic: &InputCase, rep: &mut Rep, prop: &str) {
    let g = &p.g;
    let lat = Lattice::linear(&ic.toks);
    let mut en = Enum::new(g, &lat);
    let cnt = if p.cyclic { None } else { Some(en.count_all()) };
    let (eacc, ebad) = earley(g, &ic.w);
    if let Some(c) = cnt {
        if eacc != (c > 0) {
            rep.harness_error("oracles disagree on membership (earley vs enumerator)", json!({"grammar": p.text, "input": ic.input, "earley": eacc, "count": c}));
            return;
        }
    }
    // a foreign character makes a non-sentence of anything; the error sits on it unless a token before it already fails
    let cnt = if ic.foreign.is_some() { cnt.map(|_| 0) } else { cnt };
    let member = eacc && ic.foreign.is_none();
    let exp_err_pos = match (ebad, ic.foreign) {
        (Some(k), Some((at, j))) if k >= j => at,
        (None, Some((at, _))) => at,
        (Some(k), _) => ic.toks[k].1,
        (None, None) => ic.input.len(),
    };
    if ic.foreign.is_some() {
        rep.count("inputs_with_foreign_character", 1);
    }
    // An unterminated comment: whether the error belongs to its opening or to the end of input is not settled by the
    // property (LR reports the former, GLR the latter) - only "is an error" is judged for it.
    let open_comment = ic.foreign.is_some_and(|(at, _)| ic.input[at..].starts_with("/*") && exp_err_pos == at);
    let agj = p.g.to_json();
    let spans: Vec<Vec<usize>> = ic.toks.iter().map(|t| vec![t.1, t.2]).collect();
    let case = |extra: Value| json!({"grammar": p.text, "ag": agj, "family": p.family, "input": ic.input, "tokens": ic.w, "spans": spans, "foreign": ic.foreign.map(|f| vec![f.0, f.1]), "extra": extra});
    let sig = |kind: &str| format!("{}:{}:{}", kind, fnv(&p.text), fnv(&ic.input));
    rep.count("evaluations", 1);
    crate::rep::watchdog::set(|| json!({"grammar": p.text, "input": ic.input}).to_string());

    // ---------- LR side
    let mut lr_trees: Vec<(u8, Option<String>)> = vec![];
    for side in &p.lr {
        dynp::set_step_limit(STEP_BUDGET);
        let r = guarded(|| side.dy.lr_parse(&ic.input));
        rep.max("max_steps", dynp::steps());
        rep.count("lr_parses", 1);
        let tname = table_name(side.table);
        match r {
            Err(pm) => {
                // totality is C15's business, but a panic is also a wrong answer here
                let what = format!("LR({}) parser {} instead of returning", tname, pm.map(|m| format!("panicked: {m}")).unwrap_or("exceeded the step budget".into()));
                if prop == "C01" {
                    rep.violation("C01", &sig("lr-panic"), &what, case(json!({"table": tname})));
                }
                lr_trees.push((side.table, None));
            }
            Ok(Err(e)) => {
                lr_trees.push((side.table, None));
                if member {
                    if prop == "C01" {
                        rep.violation("C01", &sig("lr-rejects"), &format!("LR({}) rejects a sentence: {}", tname, err_info(&e).1), case(json!({"table": tname})));
                    }
                    if prop == "C12" {
                        rep.violation("C12", &sig("lr-sentence-error"), &format!("LR({}) returns an error for a sentence", tname), case(json!({"table": tname, "algo": "LR"})));
                    }
                } else if prop == "C12" {
                    rep.count("errors_judged", 1);
                    rep.distinct("nontrivial", fnv(&format!("{}|{:?}|{}", p.text, ebad, "lr")));
                    let errs = if open_comment { rep.count("unterminated_comment_position_not_judged", 1); vec![] } else { judge_error(&e, &ic.input, exp_err_pos) };
                    if !errs.is_empty() {
                        rep.violation("C12", &sig("lr-errpos"), &format!("LR({}): {}", tname, errs.join("; ")), case(json!({"table": tname, "algo": "LR", "expected_offset": exp_err_pos})));
                    }
                }
            }
            Ok(Ok(t)) => {
                if !member && prop == "C01" {
                    rep.violation("C01", &sig("lr-accepts"), &format!("LR({}) accepts a non-sentence", tname), case(json!({"table": tname, "tree": dynp::shown(&t)})));
                }
                if prop == "C13" {
                    let mut sc = SpanChk::new(&ic.input);
                    sc.node(&t);
                    rep.count("trees_checked", 1);
                    rep.count("nodes_checked", count_nodes(&t) as u64);
                    if sc.empties > 0 {
                        rep.distinct("nontrivial", fnv(&format!("{}|lr|{}", p.text, ic.input)));
                    }
                    let errs = sc.finish();
                    if !errs.is_empty() {
                        rep.violation("C13", &sig("lr-span"), &format!("LR({}) tree: {}", tname, errs.join("; ")), case(json!({"table": tname, "algo": "LR", "tree": dynp::shown(&t)})));
                    }
                }
                let mut s = String::new();
                render_norm(&t, &mut s);
                lr_trees.push((side.table, Some(s)));
            }
        }
    }

    // ---------- GLR side
    if let Some((dg, dyg)) = &p.glr {
        let judge_c03 = prop == "C03" && p.glr_scope;
        dynp::set_step_limit(STEP_BUDGET);
        let r = guarded(|| dyg.glr_parse(&ic.input));
        rep.max("max_steps", dynp::steps());
        rep.count("glr_parses", 1);
        match r {
            Err(pm) => {
                let what = format!("GLR parser {} instead of returning", pm.map(|m| format!("panicked: {m}")).unwrap_or("exceeded the step budget".into()));
                if judge_c03 {
                    rep.violation("C03", &sig("glr-panic"), &what, case(json!(null)));
                }
                if prop == "C07" && !p.lr.is_empty() {
                    rep.violation("C07", &sig("glr-panic"), &what, case(json!(null)));
                }
            }
            Ok(Err(e)) => {
                if member && judge_c03 {
                    rep.violation("C03", &sig("glr-rejects"), &format!("GLR rejects a sentence (oracle count {:?}): {}", cnt, err_info(&e).1), case(json!(null)));
                }
                if prop == "C12" && p.glr_scope {
                    if member {
                        rep.violation("C12", &sig("glr-sentence-error"), "GLR returns an error for a sentence", case(json!({"algo": "GLR"})));
                    } else {
                        rep.count("errors_judged", 1);
                        rep.distinct("nontrivial", fnv(&format!("{}|{:?}|{}", p.text, ebad, "glr")));
                        let errs = if open_comment { rep.count("unterminated_comment_position_not_judged", 1); vec![] } else { judge_error(&e, &ic.input, exp_err_pos) };
                        if !errs.is_empty() {
                            rep.violation("C12", &sig("glr-errpos"), &format!("GLR: {}", errs.join("; ")), case(json!({"algo": "GLR", "expected_offset": exp_err_pos})));
                        }
                    }
                }
                if prop == "C07" {
                    for (tt, lt) in &lr_trees {
                        if lt.is_some() {
                            rep.violation("C07", &sig("glr-rejects-lr-accepts"), &format!("LR({}) accepts but GLR rejects", table_name(*tt)), case(json!(null)));
                        }
                    }
                }
            }
            Ok(Ok(f)) => {
                // Forest::solutions() is not memoised (time ~ number of trees): only ask
                // when the oracle says the number of trees is moderate.
                let moderate = cnt.is_some_and(|c| c <= 20_000);
                if !moderate {
                    rep.count("forest_not_inspected_large_or_cyclic", 1);
                    return;
                }
                let sol = f.solutions() as u64;
                if prop == "C07" {
                    for (tt, lt) in &lr_trees {
                        rep.count("lr_glr_compared", 1);
                        match lt {
                            None => rep.violation("C07", &sig("lr-rejects-glr-accepts"), &format!("GLR accepts but LR({}) rejects", table_name(*tt)), case(json!(null))),
                            Some(ls) => {
                                if sol != 1 {
                                    rep.violation("C07", &sig("glr-solutions"), &format!("GLR reports {} solutions for a deterministic grammar", sol), case(json!(null)));
                                } else {
                                    let gt = guarded(|| {
                                        let mut b = TreeBuilder::new();
                                        let t: LTree = f.get_first_tree().unwrap().build::<_, dynp::St>(&mut b);
                                        let mut s = String::new();
                                        render_norm(&t, &mut s);
                                        s
                                    });
                                    match gt {
                                        Ok(gs) => {
                                            if &gs != ls {
                                                rep.violation("C07", &sig("trees-differ"), &format!("LR({}) and GLR trees differ", table_name(*tt)), case(json!({"lr": ls, "glr": gs})));
                                            } else if ic.w.len() >= 2 {
                                                rep.distinct("nontrivial", fnv(&format!("{}|{}", p.text, ic.input)));
                                            }
                                        }
                                        Err(pm) => rep.violation("C07", &sig("glr-build-panic"), &format!("building the GLR tree panicked: {:?}", pm), case(json!(null))),
                                    }
                                }
                            }
                        }
                    }
                }
                if prop == "C13" && sol <= 64 {
                    let r2 = guarded(|| {
                        let mut out = vec![];
                        for (i, t) in f.iter().enumerate() {
                            let mut b = TreeBuilder::new();
                            let tn: LTree = t.build::<_, dynp::St>(&mut b);
                            let mut sc = SpanChk::new(&ic.input);
                            sc.node(&tn);
                            let e = sc.empties;
                            let errs = sc.finish();
                            out.push((i, count_nodes(&tn), e, errs, dynp::shown(&tn)));
                        }
                        out
                    });
                    if let Ok(out) = r2 {
                        for (i, nodes, empties, errs, shown) in out {
                            rep.count("trees_checked", 1);
                            rep.count("nodes_checked", nodes as u64);
                            if empties > 0 {
                                rep.distinct("nontrivial", fnv(&format!("{}|glr|{}", p.text, ic.input)));
                            }
                            if !errs.is_empty() {
                                rep.violation("C13", &sig("glr-span"), &format!("GLR tree #{}: {}", i, errs.join("; ")), case(json!({"algo": "GLR", "tree": shown})));
                            }
                        }
                    }
                }
                if judge_c03 {
                    let cnt = cnt.unwrap();
                    if cnt == 0 {
                        rep.violation("C03", &sig("glr-accepts"), "GLR accepts a non-sentence", case(json!({"solutions": sol})));
                    } else {
                        if sol != cnt {
                            rep.violation("C03", &sig("solutions"), &format!("solutions() = {} but the input has {} derivation trees", sol, cnt), case(json!(null)));
                        }
                        if cnt >= 2 {
                            rep.distinct("nontrivial", fnv(&p.text));
                        }
                        if g.has_nullable() {
                            rep.distinct("nullable_grammars", fnv(&p.text));
                        }
                        if cnt <= 400 && sol <= 400 {
                            judge_forest(p, dg, &f, &mut en, ic, rep);
                        } else {
                            rep.count("enumeration_skipped_large", 1);
                        }
                    }
                }
            }
        }
    }
}

/// C03: every enumeration API yields each derivation tree exactly once; out of range => None.
fn judge_forest<'i>(p: &Prepared, dg: &Dump, f: &rustemo::Forest<'i, str, dynp::Pk, dynp::Tk>, en: &mut Enum, ic: &InputCase, rep: &mut Rep) {
    let m = Map::new(dg, &p.g);
    let agj = p.g.to_json();
    let spans: Vec<Vec<usize>> = ic.toks.iter().map(|t| vec![t.1, t.2]).collect();
    let case = |extra: Value| json!({"grammar": p.text, "ag": agj, "family": p.family, "input": ic.input, "tokens": ic.w, "spans": spans, "lex": p.lex, "extra": extra});
    let sig = |kind: &str| format!("{}:{}:{}", kind, fnv(&p.text), fnv(&ic.input));
    let mut exp: Vec<T> = en.trees_all().iter().map(|t| t.norm()).collect();
    exp.sort();
    let n = f.solutions();
    let build = |t: &LTree| conv(t, dg, &m).map(|x| x.norm());
    type R = Result<Vec<T>, String>;
    let apis: Vec<(&str, Box<dyn Fn() -> R + '_>)> = vec![
        (
            "get_tree(i)",
            Box::new(|| {
                (0..n)
                    .map(|i| {
                        let t = f.get_tree(i).ok_or_else(|| format!("get_tree({}) is None although solutions() = {}", i, n))?;
                        let mut b = TreeBuilder::new();
                        let tn: LTree = t.build::<_, dynp::St>(&mut b);
                        build(&tn)
                    })
                    .collect()
            }),
        ),
        (
            "iter()",
            Box::new(|| {
                f.iter()
                    .map(|t| {
                        let mut b = TreeBuilder::new();
                        let tn: LTree = t.build::<_, dynp::St>(&mut b);
                        build(&tn)
                    })
                    .collect()
            }),
        ),
        (
            "(&forest).into_iter()",
            Box::new(|| {
                let mut v = vec![];
                for t in f {
                    let mut b = TreeBuilder::new();
                    let tn: LTree = t.build::<_, dynp::St>(&mut b);
                    v.push(build(&tn)?);
                }
                Ok(v)
            }),
        ),
    ];
    for (name, api) in apis {
        rep.count("forest_enumerations", 1);
        match guarded(|| api()) {
            Err(pm) => rep.violation("C03", &sig("enum-panic"), &format!("{} panicked: {:?}", name, pm), case(json!(null))),
            Ok(Err(e)) => rep.violation("C03", &sig("enum-bad-tree"), &format!("{}: {}", name, e), case(json!(null))),
            Ok(Ok(mut got)) => {
                got.sort();
                if got != exp {
                    let show = |v: &Vec<T>| v.iter().take(12).map(|t| t.show()).collect::<Vec<_>>();
                    rep.violation("C03", &sig("forest"), &format!("{} does not yield each derivation tree exactly once ({} yielded, {} exist)", name, got.len(), exp.len()), case(json!({"got": show(&got), "expected": show(&exp)})));
                }
            }
        }
    }
    for k in [n, n + 1, n + 17] {
        match guarded(|| f.get_tree(k).is_some()) {
            Ok(false) => {}
            Ok(true) => rep.violation("C03", &sig("oob"), &format!("get_tree({}) yields a tree although solutions() = {}", k, n), case(json!(null))),
            Err(pm) => rep.violation("C03", &sig("oob-panic"), &format!("get_tree({}) panicked: {:?}", k, pm), case(json!(null))),
        }
    }
}

// ---------------------------------------------------------------- C03: lexically ambiguous sub-family

const LEXPOOL: &[(&str, bool)] = &[("a", false), ("ab", false), ("abc", false), ("b", false), ("bc", false), ("c", false), ("ca", false), ("a+", true), ("[ab]+", true), ("ab?", true), ("b+c?", true), ("[a-c]", true), ("c[ab]*", true)];

/// Gives the terminals of a BNF grammar overlapping recognisers (equal priorities).
pub fn lexify(g: &mut AG, rng: &mut crate::rng::Rng) {
    let mut idx: Vec<usize> = (0..LEXPOOL.len()).collect();
    rng.shuffle(&mut idx);
    for (i, t) in g.terms.iter_mut().enumerate() {
        let (r, is_re) = LEXPOOL[idx[i % idx.len()]];
        t.rec = if is_re { Rec::Re(r.to_string()) } else { Rec::Lit(r.to_string()) };
    }
}

/// Token lattice: every terminal's match at every reachable position (whitespace skipped).
pub fn lex_lattice(g: &AG, input: &str) -> Lattice {
    let res: Vec<Option<regex::Regex>> = g.terms.iter().map(|t| if let Rec::Re(r) = &t.rec { Some(regex::Regex::new(&format!("^(?:{})", r)).unwrap()) } else { None }).collect();
    let norm = |p: usize| crate::c06::skip_ws(input, p);
    let mut offs: std::collections::BTreeSet<usize> = Default::default();
    let mut work = vec![norm(0)];
    let mut raw: Vec<(usize, usize, usize, usize)> = vec![]; // from, term, start, end(normalised)
    while let Some(p) = work.pop() {
        if !offs.insert(p) {
            continue;
        }
        for (ti, t) in g.terms.iter().enumerate() {
            let len = match &t.rec {
                Rec::Lit(l) => {
                    if input[p..].starts_with(l.as_str()) {
                        Some(l.len())
                    } else {
                        None
                    }
                }
                Rec::Re(_) => res[ti].as_ref().unwrap().find(&input[p..]).map(|m| m.end()),
            };
            if let Some(len) = len {
                if len > 0 {
                    let to = norm(p + len);
                    raw.push((p, ti, p, p + len));
                    work.push(to);
                }
            }
        }
    }
    offs.insert(input.len());
    let order: Vec<usize> = offs.iter().cloned().collect();
    let index = |o: usize| order.binary_search(&o).unwrap();
    let mut edges: Vec<Vec<Edge>> = vec![vec![]; order.len()];
    for (from, term, start, end) in raw {
        edges[index(from)].push(Edge { term, to: index(norm(end)), start, end });
    }
    Lattice { edges, start: index(norm(0)), end: index(input.len()) }
}

pub fn lex_spec() -> SetSpec {
    SetSpec { glr: true, ms: false, lm: false, go: Some(false), ..Default::default() }
}

/// C13 over the lexically ambiguous family: heads split per token alternative, empty reductions in front of them.
fn judge_lex_spans(p: &Prepared, input: &str, rep: &mut Rep) {
    let Some((_, dyg)) = &p.glr else { return };
    let agj = p.g.to_json();
    let case = |extra: Value| json!({"grammar": p.text, "ag": agj, "input": input, "lex": true, "extra": extra});
    crate::rep::watchdog::set(|| case(json!(null)).to_string());
    rep.count("evaluations", 1);
    rep.count("lexical_family_inputs", 1);
    dynp::set_step_limit(STEP_BUDGET);
    let r = guarded(|| {
        let mut out = vec![];
        if let Ok(f) = dyg.glr_parse(input) {
            // tree extraction weighs alternatives with the un-memoised solutions(): small forests only
            if f.solutions() <= 64 {
                for (i, t) in f.iter().enumerate() {
                    let mut b = TreeBuilder::new();
                    let tn: LTree = t.build::<_, dynp::St>(&mut b);
                    let mut sc = SpanChk::new(input);
                    sc.node(&tn);
                    let e = sc.empties;
                    out.push((i, count_nodes(&tn), e, sc.finish(), dynp::shown(&tn)));
                }
            }
        }
        out
    });
    let Ok(out) = r else {
        rep.count("panic_or_step_budget_not_judged_here", 1);
        return;
    };
    for side in &p.lr {
        dynp::set_step_limit(STEP_BUDGET);
        if let Ok(Ok(t)) = guarded(|| side.dy.lr_parse(input)) {
            let mut sc = SpanChk::new(input);
            sc.node(&t);
            rep.count("trees_checked", 1);
            rep.count("lexical_family_lr_trees", 1);
            rep.count("nodes_checked", count_nodes(&t) as u64);
            if sc.empties > 0 {
                rep.distinct("nontrivial", fnv(&format!("{}|lr|{}", p.text, input)));
            }
            let errs = sc.finish();
            if !errs.is_empty() {
                rep.violation("C13", &format!("lex-lr-span:{}:{}", fnv(&p.text), fnv(input)), &format!("LR tree (lexically overlapping terminals): {}", errs.join("; ")), case(json!({"algo": "LR", "tree": dynp::shown(&t)})));
            }
        }
    }
    let n = out.len();
    for (i, nodes, empties, errs, shown) in out {
        rep.count("trees_checked", 1);
        rep.count("nodes_checked", nodes as u64);
        if empties > 0 {
            rep.distinct("nontrivial", fnv(&format!("{}|glr|{}", p.text, input)));
            if n >= 2 {
                rep.distinct("lexically_ambiguous_inputs_with_empty_nonterminal", fnv(&format!("{}|{}", p.text, input)));
            }
        }
        if !errs.is_empty() {
            rep.violation("C13", &format!("lex-glr-span:{}:{}", fnv(&p.text), fnv(input)), &format!("GLR tree #{} (of {}): {}", i, n, errs.join("; ")), case(json!({"algo": "GLR", "tree": shown})));
        }
    }
}

pub fn judge_lex_input(p: &Prepared, input: &str, rep: &mut Rep) {
    let Some((dg, dyg)) = &p.glr else { return };
    let lat = lex_lattice(&p.g, input);
    let mut en = Enum::new(&p.g, &lat);
    let cnt = en.count_all();
    let ic = InputCase { w: vec![], input: input.to_string(), toks: vec![], foreign: None };
    let agj = p.g.to_json();
    let case = |extra: Value| json!({"grammar": p.text, "ag": agj, "input": input, "lex": true, "extra": extra});
    let sig = |kind: &str| format!("lex-{}:{}:{}", kind, fnv(&p.text), fnv(input));
    crate::rep::watchdog::set(|| case(json!(null)).to_string());
    rep.count("evaluations", 1);
    rep.count("lexical_family_inputs", 1);
    dynp::set_step_limit(STEP_BUDGET);
    match guarded(|| dyg.glr_parse(input)) {
        Err(pm) => rep.violation("C03", &sig("panic"), &format!("GLR parser panicked or ran away: {:?}", pm), case(json!(null))),
        Ok(Err(e)) => {
            if cnt > 0 {
                rep.violation("C03", &sig("rejects"), &format!("GLR rejects a sentence with {} derivation trees over its token lattice: {}", cnt, err_info(&e).1), case(json!(null)));
            }
        }
        Ok(Ok(f)) => {
            if cnt == 0 {
                rep.violation("C03", &sig("accepts"), "GLR accepts an input that has no derivation over its token lattice", case(json!(null)));
                return;
            }
            if cnt > 20_000 {
                rep.count("forest_not_inspected_large_or_cyclic", 1);
                return;
            }
            let sol = f.solutions() as u64;
            if sol != cnt {
                rep.violation("C03", &sig("solutions"), &format!("solutions() = {} but the input has {} derivation trees over its token lattice", sol, cnt), case(json!(null)));
            }
            if cnt >= 2 {
                rep.distinct("nontrivial", fnv(&p.text));
                rep.distinct("lexically_ambiguous_grammars", fnv(&p.text));
            }
            if cnt <= 400 && sol <= 400 {
                judge_forest(p, dg, &f, &mut en, &ic, rep);
            }
        }
    }
}

pub fn run_lex_grammar(g: &AG, wd: &Workdir, rep: &mut Rep, maxlen: usize, only: Option<&str>, prop: &str) {
    rep.count("grammars_generated", 1);
    if !g.glr_scope() {
        rep.count("grammars_out_of_scope", 1);
        return;
    }
    let text = g.text();
    let spec = lex_spec();
    let c = wd.compile(&text, &spec);
    let (Outcome::Ok, Some(d)) = (&c.outcome, c.dump) else {
        rep.count("lexical_family_not_compiled", 1);
        return;
    };
    let Ok(dy) = Dyn::new(&d, spec.dyn_cfg()) else { return };
    rep.count("grammars_in_scope", 1);
    // C13 also walks the LR tree of the same texts (conflicts settled by prefer-shift, lexical choice by the default strategies)
    let mut lr = vec![];
    if prop == "C13" {
        let lspec = SetSpec { ps: Some(true), pse: Some(true), ..SetSpec::lr(0) };
        let c = wd.compile(&text, &lspec);
        if let (Outcome::Ok, Some(d)) = (&c.outcome, c.dump) {
            if let Ok(dy) = Dyn::new(&d, lspec.dyn_cfg()) {
                lr.push(LrSide { table: 0, dump: d, dy });
            }
        }
    }
    let p = Prepared { g: g.clone(), text, cyclic: false, glr_scope: true, glr: Some((d, dy)), lr, lex: true, family: 0 };
    let judge = |p: &Prepared, i: &str, rep: &mut Rep| if prop == "C13" { judge_lex_spans(p, i, rep) } else { judge_lex_input(p, i, rep) };
    match only {
        Some(i) => judge(&p, i, rep),
        None => {
            for input in crate::c06::all_inputs(&['a', 'b', 'c', ' '], maxlen) {
                if prop == "C13" && input.contains(' ') {
                    // multi-line variant: line/column bookkeeping across the split heads
                    judge(&p, &input.replace(' ', "\n  "), rep);
                } else {
                    judge(&p, &input, rep);
                }
            }
        }
    }
    rep.sample(json!({"grammar_name": "lexically ambiguous family (all lexical strategies off)", "grammar": p.text}));
}

// ---------------------------------------------------------------- C07: content tokens that are also the start of layout

/// Pure LR/GLR differential (no reference tokenisation is needed): a content terminal is `/` or `*` while the
/// Layout rule has `//` and `/* */` comments, and the inputs put them next to each other without whitespace.
fn judge_overlap_input(p: &Prepared, input: &str, rep: &mut Rep) {
    let Some((_, dyg)) = &p.glr else { return };
    let agj = p.g.to_json();
    let case = |extra: Value| json!({"grammar": p.text, "ag": agj, "family": p.family, "input": input, "overlap": true, "extra": extra});
    let sig = |kind: &str| format!("overlap-{}:{}:{}", kind, fnv(&p.text), fnv(input));
    crate::rep::watchdog::set(|| case(json!(null)).to_string());
    rep.count("evaluations", 1);
    rep.count("overlap_family_inputs", 1);
    let mut lr: Vec<(u8, Option<String>)> = vec![];
    for side in &p.lr {
        dynp::set_step_limit(STEP_BUDGET);
        match guarded(|| side.dy.lr_parse(input)) {
            Err(_) => {
                rep.count("panic_or_step_budget_not_judged_here", 1);
                return;
            }
            Ok(Err(_)) => lr.push((side.table, None)),
            Ok(Ok(t)) => {
                let mut s = String::new();
                render_norm(&t, &mut s);
                lr.push((side.table, Some(s)));
            }
        }
    }
    dynp::set_step_limit(STEP_BUDGET);
    let r = guarded(|| {
        dyg.glr_parse(input).map_err(|e| err_info(&e).0.map(|sp| sp.start.pos)).map(|f| {
            let sol = f.solutions();
            let tree = if sol == 1 {
                let mut b = TreeBuilder::new();
                let t: LTree = f.get_first_tree().unwrap().build::<_, dynp::St>(&mut b);
                let mut s = String::new();
                render_norm(&t, &mut s);
                Some(s)
            } else {
                None
            };
            (sol, tree)
        })
    });
    let Ok(glr_full) = r else {
        rep.violation("C07", &sig("glr-panic"), "GLR parser panicked or exceeded the step budget where LR returned", case(json!(null)));
        return;
    };
    let glr_err_at = glr_full.as_ref().err().cloned().flatten();
    let glr = glr_full.ok();
    // The LR parser fetches the look-ahead again after every reduction (context-aware lexing in the new state); the GLR
    // parser keeps the token it found before the reductions. Listed finding C07 glr-no-relex: recognised by the
    // mechanism, not by the input - the LR run lexes one position twice with different outcomes.
    let relex_positions = |side: &LrSide| -> Vec<usize> {
        let lay = dynp::layout_states(&side.dump);
        dynp::set_step_limit(STEP_BUDGET);
        let calls = guarded(|| side.dy.lr_parse_traced(input).1).unwrap_or_default();
        let mut first: std::collections::BTreeMap<usize, Vec<u16>> = Default::default();
        let mut div = vec![];
        for (pos, st, kinds) in calls {
            if lay.contains(&(st as usize)) {
                continue;
            }
            match first.get(&pos) {
                None => {
                    first.insert(pos, kinds);
                }
                Some(k) => {
                    if *k != kinds && !div.contains(&pos) {
                        div.push(pos);
                    }
                }
            }
        }
        div
    };
    for (side, (tt, lt)) in p.lr.iter().zip(lr.iter()) {
        rep.count("lr_glr_compared", 1);
        let disagree = |rep: &mut Rep, kind: &str, what: String| {
            let div = relex_positions(side);
            // GLR rejecting: its error must sit where the kept look-ahead stopped fitting, i.e. at a re-lexed offset
            let explained = !div.is_empty() && (kind != "glr-rejects-lr-accepts" || glr_err_at.is_some_and(|e| div.contains(&e)));
            if !explained {
                rep.violation("C07", &sig(kind), &what, case(json!({"relex_offsets": div, "glr_error_offset": glr_err_at})));
            } else {
                rep.count("known_glr_no_relex_disagreements", 1);
                rep.violation("C07", "glr-no-relex", &format!("{} (the LR run lexed offset(s) {:?} again after a reduction with a different outcome)", what, div), case(json!({"relex_offsets": div})));
            }
        };
        match (lt, &glr) {
            (None, None) => rep.count("overlap_rejected_by_both", 1),
            (Some(_), None) => disagree(rep, "glr-rejects-lr-accepts", format!("LR({}) accepts but GLR rejects", table_name(*tt))),
            (None, Some(_)) => disagree(rep, "lr-rejects-glr-accepts", format!("GLR accepts but LR({}) rejects", table_name(*tt))),
            (Some(ls), Some((sol, gt))) => {
                rep.count("overlap_accepted_by_both", 1);
                if *sol != 1 {
                    disagree(rep, "glr-solutions", format!("GLR reports {} solutions for a deterministic grammar", sol));
                } else if gt.as_ref() != Some(ls) {
                    disagree(rep, "trees-differ", format!("LR({}) and GLR trees differ: {} vs {}", table_name(*tt), ls, gt.as_deref().unwrap_or("")));
                } else if input.contains("//") || input.contains("/*") {
                    rep.distinct("nontrivial", fnv(&format!("{}|{}", p.text, input)));
                    rep.distinct("overlap_accepted_inputs_with_comment_opener", fnv(&format!("{}|{}", p.text, input)));
                }
            }
        }
    }
}

pub fn run_overlap_grammar(g0: &AG, wd: &Workdir, rep: &mut Rep, rng: &mut crate::rng::Rng, only: Option<(&str, u8)>) {
    let (g, family) = match only {
        Some((_, f)) => (g0.clone(), f),
        None => {
            let mut g = g0.clone();
            let k = rng.below(g.terms.len());
            g.terms[k].rec = Rec::Lit("/".into());
            if g.terms.len() > 1 && rng.chance(0.4) {
                let j = (k + 1 + rng.below(g.terms.len() - 1)) % g.terms.len();
                g.terms[j].rec = Rec::Lit("*".into());
            }
            (g, *rng.pick(&[2u8, 3, 3, 4, 6, 7]))
        }
    };
    rep.count("grammars_generated", 1);
    let Some(p) = prepare(&g, wd, rep, "C07", family) else { return };
    if !in_scope_for(&p, "C07") {
        rep.count("grammars_out_of_scope", 1);
        return;
    }
    rep.count("grammars_in_scope", 1);
    rep.count("overlap_family_grammars", 1);
    if let Some((input, _)) = only {
        judge_overlap_input(&p, input, rep);
        return;
    }
    let mut alpha: Vec<String> = g.terms.iter().filter_map(|t| if let Rec::Lit(l) = &t.rec { Some(l.clone()) } else { None }).collect();
    for x in [" ", "\n", "/", "*", "x"] {
        if !alpha.iter().any(|a| a == x) {
            alpha.push(x.to_string());
        }
    }
    let mut inputs: Vec<String> = vec![String::new()];
    let mut cur = vec![String::new()];
    for _ in 0..4 {
        let mut next = vec![];
        for s in &cur {
            for a in &alpha {
                next.push(format!("{}{}", s, a));
            }
        }
        inputs.extend(next.iter().cloned());
        cur = next;
    }
    for _ in 0..600 {
        let n = rng.range(5, 9);
        inputs.push((0..n).map(|_| alpha[rng.below(alpha.len())].as_str()).collect());
    }
    for input in inputs {
        judge_overlap_input(&p, &input, rep);
    }
    rep.sample(json!({"grammar_name": "content token that is also the start of layout", "grammar": p.text}));
}

/// into_iter() consumes the forest, so it needs its own parse.
fn judge_into_iter(p: &Prepared, ic: &InputCase, rep: &mut Rep) {
    let Some((dg, dyg)) = &p.glr else { return };
    let lat = Lattice::linear(&ic.toks);
    let mut en = Enum::new(&p.g, &lat);
    let cnt = en.count_all();
    if cnt == 0 || cnt > 400 {
        return;
    }
    let m = Map::new(dg, &p.g);
    dynp::set_step_limit(STEP_BUDGET);
    let r = guarded(|| {
        let f = dyg.glr_parse(&ic.input).ok()?;
        let mut got = vec![];
        for t in f {
            let mut b = TreeBuilder::new();
            let tn: LTree = t.build::<_, dynp::St>(&mut b);
            got.push(conv(&tn, dg, &m).map(|x| x.norm()));
        }
        Some(got)
    });
    rep.count("forest_enumerations", 1);
    let sig = format!("into_iter:{}:{}", fnv(&p.text), fnv(&ic.input));
    let case = json!({"grammar": p.text, "ag": p.g.to_json(), "family": p.family, "input": ic.input, "tokens": ic.w, "spans": ic.toks.iter().map(|t| vec![t.1, t.2]).collect::<Vec<_>>()});
    match r {
        Ok(Some(got)) => {
            let mut got: Vec<T> = match got.into_iter().collect::<Result<Vec<_>, _>>() {
                Ok(g) => g,
                Err(e) => {
                    rep.violation("C03", &sig, &format!("into_iter(): {}", e), case);
                    return;
                }
            };
            got.sort();
            let mut exp: Vec<T> = en.trees_all().iter().map(|t| t.norm()).collect();
            exp.sort();
            if got != exp {
                rep.violation("C03", &sig, &format!("into_iter() does not yield each derivation tree exactly once ({} yielded, {} exist)", got.len(), exp.len()), case);
            }
        }
        Ok(None) => {}
        Err(pm) => rep.violation("C03", &sig, &format!("into_iter() panicked: {:?}", pm), case),
    }
}

fn in_scope_for(p: &Prepared, prop: &str) -> bool {
    match prop {
        "C01" => !p.lr.is_empty(),
        "C07" => !p.lr.is_empty() && p.glr.is_some(),
        "C03" => p.glr_scope && p.glr.is_some(),
        "C12" | "C13" => !p.lr.is_empty() || (p.glr_scope && p.glr.is_some()),
        _ => false,
    }
}

/// A GLR parser object that has already parsed other inputs must answer like a fresh one (which the main pass
/// compares with the LR parser / the oracles): accept/reject and the first tree.
pub fn judge_glr_history(p: &Prepared, hist: &[String], rep: &mut Rep, prop: &str) {
    let Some((_, dyg)) = &p.glr else { return };
    if hist.len() < 2 {
        return;
    }
    let summary = |r: rustemo::Result<rustemo::Forest<'_, str, dynp::Pk, dynp::Tk>>| -> String {
        match r {
            Err(e) => format!("Err@{:?}", err_info(&e).0.map(|s| s.start.pos)),
            Ok(f) => match f.get_first_tree() {
                Some(t) => {
                    let mut b = TreeBuilder::new();
                    let tn: LTree = t.build::<_, dynp::St>(&mut b);
                    let mut s = String::from("Ok ");
                    render_norm(&tn, &mut s);
                    s
                }
                None => "Ok <no tree>".into(),
            },
        }
    };
    let agj = p.g.to_json();
    let case = |upto: usize, extra: Value| json!({"grammar": p.text, "ag": agj, "family": p.family, "glr_history": &hist[..upto], "extra": extra});
    crate::rep::watchdog::set(|| case(hist.len(), json!(null)).to_string());
    let mut fresh: Vec<Option<String>> = vec![];
    for input in hist {
        crate::rep::watchdog::touch();
        dynp::set_step_limit(STEP_BUDGET);
        fresh.push(guarded(|| summary(dyg.glr_parse(input))).ok());
    }
    if fresh.iter().any(|f| f.is_none()) {
        rep.count("panic_or_step_budget_not_judged_here", 1);
        return;
    }
    rep.count("glr_parser_object_histories", 1);
    let mut done = 0usize;
    let mut mismatch: Option<(usize, String)> = None;
    let r = guarded(|| {
        dyg.glr_session(|parse| {
            for (k, input) in hist.iter().enumerate() {
                crate::rep::watchdog::touch();
                dynp::set_step_limit(STEP_BUDGET);
                let got = summary(parse(input));
                done = k + 1;
                if Some(&got) != fresh[k].as_ref() {
                    mismatch = Some((k, got));
                    break;
                }
            }
        })
    });
    rep.count("glr_parser_object_parses", done as u64);
    let sig = |kind: &str, upto: usize| format!("glr-reuse-{}:{}:{}", kind, fnv(&p.text), fnv(&hist[..upto].join("\u{1}")));
    match (r, mismatch) {
        (Err(pm), _) => rep.violation(prop, &sig("panic", done + 1), &format!("a GLR parser object that had parsed {} input(s) before {} on input {:?}, which a fresh object answers with {}", done, pm.map(|m| format!("panicked ({m})")).unwrap_or("exceeded the step budget".into()), hist[done.min(hist.len() - 1)], fresh[done.min(hist.len() - 1)].as_deref().unwrap_or("?")), case((done + 1).min(hist.len()), json!(null))),
        (Ok(()), Some((k, got))) => rep.violation(prop, &sig("differs", k + 1), &format!("a GLR parser object that had parsed {} input(s) before answers {:?} with {} but a fresh object with {}", k, hist[k], got.chars().take(120).collect::<String>(), fresh[k].as_deref().unwrap_or("?").chars().take(120).collect::<String>()), case(k + 1, json!(null))),
        _ => {}
    }
}

pub fn run_grammar(g: &AG, name: &str, wd: &Workdir, rep: &mut Rep, prop: &str, maxlen: usize, rng: &mut crate::rng::Rng, family: u8) {
    rep.count("grammars_generated", 1);
    let Some(p) = prepare(g, wd, rep, prop, family) else { return };
    if family > 0 {
        rep.count("grammars_with_layout_rule", 1);
    }
    // hostile rendering: whitespace soup, or (Layout families) comments / whitespace of the family, also none between tokens
    let hostile = |g: &AG, w: &[usize], rng: &mut crate::rng::Rng| {
        if family == 0 {
            return render_ws(g, w, rng);
        }
        let mut r2 = rng.clone();
        let lead = crate::c14::gen_layout(&mut r2, family, true, false);
        let trail = crate::c14::gen_layout(&mut r2, family, true, true);
        let res = render(g, w, |_| crate::c14::gen_layout(&mut r2, family, true, false), &lead, &trail);
        *rng = r2;
        res
    };
    if !in_scope_for(&p, prop) {
        rep.count("grammars_out_of_scope", 1);
        return;
    }
    rep.count("grammars_in_scope", 1);
    let l = len_for(g.terms.len(), maxlen, if prop == "C03" { 1500 } else { 4000 });
    let mut acc = 0u64;
    let mut rej = 0u64;
    let before_eval = *rep.counters.get("evaluations").unwrap_or(&0);
    for (wi, w) in all_strings(g.terms.len(), l).into_iter().enumerate() {
        // every string once with single blanks; a sample again with hostile whitespace
        let (input, toks) = render_plain(g, &w);
        let ic = InputCase { w: w.clone(), input, toks, foreign: None };
        let (m, _) = earley(g, &w);
        if m {
            acc += 1
        } else {
            rej += 1
        }
        judge_input(&p, &ic, rep, prop);
        if prop != "C03" && wi % 7 == 3 {
            judge_input(&p, &with_foreign(&ic.input, &ic.w, &ic.toks, rng, family), rep, prop);
        }
        if prop == "C03" && m && wi % 3 == 0 {
            judge_into_iter(&p, &ic, rep);
        }
        if (prop == "C12" || prop == "C13" || (family > 0 && prop == "C07")) && rng.chance(if family > 0 { 0.5 } else { 0.25 }) {
            let (input, toks) = hostile(g, &w, rng);
            if prop != "C03" && rng.chance(0.15) {
                judge_input(&p, &with_foreign(&input, &w, &toks, rng, family), rep, prop);
            }
            judge_input(&p, &InputCase { w, input, toks, foreign: None }, rep, prop);
        }
    }
    // longer random sentences and mutations of them (many when the alphabet is too large for long exhaustive strings)
    let big = g.rules.len() >= 10;
    if big {
        rep.count("big_family_grammars_in_scope", 1);
        for side in &p.lr {
            rep.max("max_lr_states", side.dump.table.states.len() as u64);
        }
    }
    for _ in 0..(if big { 60 } else if g.terms.len() > 4 { 40 } else { 6 }) {
        let budget = if big { rng.range(8, 60) } else { l + 6 };
        if let Some(mut w) = random_sentence(g, rng, budget) {
            if w.len() > (if big { 90 } else { 14 }) {
                continue;
            }
            if big {
                rep.max("max_sentence_tokens", w.len() as u64);
            }
            for variant in 0..3 {
                if variant > 0 && !w.is_empty() {
                    let i = rng.below(w.len());
                    match rng.below(3) {
                        0 => {
                            w.remove(i);
                        }
                        1 => w.insert(i, rng.below(g.terms.len())),
                        _ => w[i] = rng.below(g.terms.len()),
                    }
                }
                let (input, toks) = hostile(g, &w, rng);
                let (m, _) = earley(g, &w);
                if m {
                    acc += 1
                } else {
                    rej += 1
                }
                if prop != "C03" && rng.chance(0.3) {
                    judge_input(&p, &with_foreign(&input, &w, &toks, rng, family), rep, prop);
                }
                judge_input(&p, &InputCase { w: w.clone(), input, toks, foreign: None }, rep, prop);
            }
        }
    }
    if prop == "C07" || prop == "C03" {
        // one GLR parser object over a history of these inputs (sentences and non-sentences interleaved)
        let mut hist: Vec<String> = vec![];
        // ambiguous grammars (C03): GLR cost grows fast with the input, and only grammars in C03's scope are of interest
        let rounds = if prop == "C03" { if p.glr_scope { 12 } else { 0 } } else { 24 };
        for _ in 0..rounds {
            let budget = rng.range(0, l + 6);
            if let Some(mut w) = random_sentence(g, rng, budget) {
                // ambiguous grammars (C03): short inputs only, forests grow fast
                if w.len() > (if prop == "C03" { 7 } else { 30 }) {
                    continue;
                }
                if rng.chance(0.4) && !w.is_empty() {
                    let i = rng.below(w.len());
                    w[i] = rng.below(g.terms.len());
                }
                hist.push(hostile(g, &w, rng).0);
            }
        }
        judge_glr_history(&p, &hist, rep, prop);
    }
    let evals = *rep.counters.get("evaluations").unwrap_or(&0) - before_eval;
    if prop == "C01" && acc > 0 && rej > 0 {
        rep.distinct("nontrivial", fnv(&p.text));
    }
    rep.sample(json!({"grammar_name": name, "grammar": p.text, "string_len_bound": l, "inputs": evals, "sentences": acc, "non_sentences": rej,
                      "lr_tables_in_scope": p.lr.iter().map(|s| table_name(s.table)).collect::<Vec<_>>(), "glr_in_scope": p.glr_scope}));
}

pub fn main(a: &Args) {
    let mut rep = Rep::new(a.out.as_deref());
    let wd = Workdir::new("diff");
    let prop = a.prop.as_str();
    if let Some(path) = &a.replay {
        replay(path, &wd, &mut rep, prop);
        rep.finish();
        return;
    }
    let (n, maxlen) = if a.thorough { (a.n.unwrap_or(2500), 7) } else { (a.n.unwrap_or(90), 5) };
    let mut rng = a.rng(1);
    if a.shard == 0 {
        for (name, g) in corpus() {
            run_grammar(&g, &name, &wd, &mut rep, prop, maxlen, &mut rng, 0);
        }
    }
    let opts = BnfOpts::default();
    let mut rng_td = a.rng(4242);
    let mut i = 0;
    while i < n && rep.elapsed() < a.max_s {
        let big = i % 5 == 4;
        let o = if big { BnfOpts { max_nt: 5, max_t: 4, max_alts: 3, max_len: 4, ..opts } } else { opts };
        if (prop == "C01" || prop == "C07") && i % 10 == 6 {
            // an extra grammar of the top-down family; own PRNG stream, the main stream is what it was without it
            let g2 = gen_topdown(&mut rng_td);
            if g2.reduced() {
                rep.count("topdown_family_grammars_generated", 1);
                run_grammar(&g2, "topdown", &wd, &mut rep, prop, maxlen, &mut rng_td, 0);
            }
        }
        let g = if prop == "C03" && i % 10 == 9 {
            rep.count("ambiguous_prefix_nullable_tail_grammars", 1);
            gen_amb_tails(&mut rng)
        } else if i % 5 == 3 {
            gen_ctx(&mut rng)
        } else if i % 10 == 1 {
            rep.count("lists_family_grammars_generated", 1);
            gen_lists(&mut rng)
        } else if i % 20 == 7 && prop != "C03" {
            rep.count("big_family_grammars_generated", 1);
            gen_big(&mut rng)
        } else {
            gen_bnf(&mut rng, &o)
        };
        i += 1;
        if (prop == "C03" && i % 4 == 1 || prop == "C13" && i % 8 == 1) && g.reduced() {
            let mut lg = g.clone();
            lexify(&mut lg, &mut rng);
            run_lex_grammar(&lg, &wd, &mut rep, if a.thorough { 6 } else { 5 }, None, prop);
        }
        if prop == "C07" && i % 6 == 2 && g.reduced() && g.terms.len() <= 5 {
            run_overlap_grammar(&g, &wd, &mut rep, &mut rng, None);
        }
        if !g.reduced() {
            rep.count("grammars_not_reduced", 1);
            continue;
        }
        let mut g = g;
        if (prop == "C13" || prop == "C12" || prop == "C07") && rng.chance(0.35) {
            // non-ASCII and multi-line token texts
            unicodeify(&mut g, &mut rng);
            rep.count("grammars_with_non_ascii_multiline_literals", 1);
        }
        // a quarter of the C07/C12/C13 grammars get a user Layout rule (whitespace / comments / nested comments, six shapes)
        let family = if (prop == "C13" || prop == "C12" || prop == "C07") && rng.chance(0.25) { rng.range(1, 7) as u8 } else { 0 };
        run_grammar(&g, "random_bnf", &wd, &mut rep, prop, maxlen, &mut rng, family);
    }
    rep.finish();
}

/// Re-executes exactly one recorded case.
fn replay(path: &str, wd: &Workdir, rep: &mut Rep, prop: &str) {
    let v: Value = serde_json::from_str(&std::fs::read_to_string(path).expect("read replay")).expect("json");
    let case = &v["case"];
    let g = AG::from_json(&case["ag"]);
    if case["lex"].as_bool() == Some(true) {
        run_lex_grammar(&g, wd, rep, 5, case["input"].as_str(), prop);
        return;
    }
    if let Some(h) = case["glr_history"].as_array() {
        let hist: Vec<String> = h.iter().map(|x| x.as_str().unwrap().to_string()).collect();
        if let Some(p) = prepare(&g, wd, rep, prop, case["family"].as_u64().unwrap_or(0) as u8) {
            judge_glr_history(&p, &hist, rep, prop);
        }
        return;
    }
    if case["overlap"].as_bool() == Some(true) {
        let mut rng = crate::rng::Rng::new(0);
        run_overlap_grammar(&g, wd, rep, &mut rng, Some((case["input"].as_str().unwrap_or(""), case["family"].as_u64().unwrap_or(0) as u8)));
        return;
    }
    let p = prepare(&g, wd, rep, prop, case["family"].as_u64().unwrap_or(0) as u8).unwrap();
    if let Some(input) = case["input"].as_str() {
        let w: Vec<usize> = case["tokens"].as_array().expect("tokens").iter().map(|x| x.as_u64().unwrap() as usize).collect();
        let mut toks = vec![];
        if let Some(sp) = case["spans"].as_array() {
            for (t, s) in w.iter().zip(sp.iter()) {
                toks.push((*t, s[0].as_u64().unwrap() as usize, s[1].as_u64().unwrap() as usize));
            }
        } else {
            // older replay files: locate the recorded token kinds in order in the input
            let mut pos = 0;
            for t in &w {
                let Rec::Lit(l) = &g.terms[*t].rec else { panic!("literal terminal expected") };
                let at = input[pos..].find(l.as_str()).expect("token text") + pos;
                toks.push((*t, at, at + l.len()));
                pos = at + l.len();
            }
        }
        let foreign = case["foreign"].as_array().map(|f| (f[0].as_u64().unwrap() as usize, f[1].as_u64().unwrap() as usize));
        judge_input(&p, &InputCase { w, input: input.to_string(), toks, foreign }, rep, prop);
    }
}
