//! C16: the compiler is total — any grammar text yields a parser or an error
//! value with a message; never a panic or an abort.
use crate::c05::{gen_expr, random_meta};
use crate::c06::gen_lex;
use crate::c09::gen_sg;
use crate::c14::grammar_text;
use crate::c15::repo_grammars;
use crate::comp::*;
use crate::gens::*;
use crate::ag::fnv;
use crate::rep::{Args, Rep};
use crate::rng::Rng;
use serde_json::{json, Value};

/// One exemplar per syntax construct of the grammar language (rustemo.rustemo), including the
/// constructs the book marks as not implemented, plus semantically broken texts.
pub const EXEMPLARS: &[&str] = &[
    "",
    " \n\t",
    "// only a comment\n",
    "/* unterminated",
    "/* nested /* comment */ */ S: a; terminals a: 'a';",
    "terminals\nA: 'a';\n",
    "terminals\n",
    "S: A;",
    "S: A; terminals A: ;",
    "S: A; terminals A: {15};",
    "S: A; terminals A: 'a' {prefer};",
    "S: A; terminals A: 'a' {finish};",
    "S: A; terminals A: 'a' {nofinish, 5, left, dynamic};",
    "S: A; terminals A: 'a' {x: 3};",
    "import 'other.rustemo';\nS: A; terminals A: 'a';",
    "import 'other.rustemo' as o;\nS: o.A; terminals A: 'a';",
    "S: a.b; terminals a.b: 'a';",
    "S: (A B)*; terminals A: 'a'; B: 'b';",
    "S: A (B | C) D; terminals A: 'a'; B: 'b'; C: 'c'; D: 'd';",
    "S: a (b* a {left} | b); terminals a: 'a'; b: 'b';",
    "S: (b c)*[comma] a=(a+ (b | c)*)+[comma]; terminals a: 'a'; b: 'b'; c: 'c'; comma: ',';",
    "S: A*!; terminals A: 'a';",
    "S: A+!; terminals A: 'a';",
    "S: A?!; terminals A: 'a';",
    "S: A+[B, C]; terminals A: 'a'; B: 'b'; C: 'c';",
    "S: A+[B]; terminals A: 'a';",
    "S: A+[S]; terminals A: 'a';",
    "S: A*[B]; terminals A: 'a'; B: 'b';",
    "S: A?[B]; terminals A: 'a'; B: 'b';",
    "S: x=A y?=A z=A* w?=A+; terminals A: 'a';",
    "S: x=A x=A; terminals A: 'a';",
    "S: fn=A; terminals A: 'a';",
    "S: self=A; terminals A: 'a';",
    "S: Self=A; terminals A: 'a';",
    "S: r#type=A; terminals A: 'a';",
    "fn: match; match: 'a' | EMPTY; terminals",
    "fn: A; terminals A: 'a';",
    "Option: Vec; Vec: Box | EMPTY; Box: A; terminals A: 'a';",
    "S: 'a';",
    "S: 'a'; terminals A: 'a'; B: 'a';",
    "S: A; terminals A: 'a'; A: 'b';",
    "S: A; S: B; terminals A: 'a'; B: 'b';",
    "S: A; A: 'a'; terminals A: 'a';",
    "S: S;",
    "S: A; A: S;",
    "S: A | a; A: S; terminals a: 'a';",
    "S: A B; A: B; B: A;",
    "S: S a; terminals a: 'a';",
    "S: EMPTY;",
    "S: EMPTY | EMPTY;",
    "S: A EMPTY B; terminals A: 'a'; B: 'b';",
    "S: EMPTY EMPTY;",
    "S: EMPTY*;",
    "S: STOP; terminals A: 'a';",
    "S: A STOP; terminals A: 'a';",
    "AUG: A; terminals A: 'a';",
    "S: A; AUG: A; terminals A: 'a';",
    "EMPTY: A; terminals A: 'a';",
    "S: A; terminals A: 'a'; STOP: 'b';",
    "S: A; terminals A: 'a'; EMPTY: 'b';",
    "Layout: A; terminals A: 'a';",
    "S: A; Layout: EMPTY; terminals A: 'a';",
    "S: A; Layout: Layout A | EMPTY; terminals A: 'a';",
    "S: A; Layout: S; terminals A: 'a';",
    "S: Layout; Layout: A*; terminals A: 'a';",
    "S {left, right}: A {shift, reduce}; terminals A: 'a';",
    "S {99999999999}: A; terminals A: 'a';",
    "S {4294967295}: A; terminals A: 'a';",
    "S {4294967296}: A; terminals A: 'a';",
    "S {0}: A {0}; terminals A: 'a' {0};",
    "S: A {x: 1.5, y: -2.0e3, z: 'str', w: \"dq\", v: true};  terminals A: 'a';",
    "S: A {x: 99999999999999999999.0}; terminals A: 'a';",
    "S: A {Kind, Kind}; terminals A: 'a';",
    "S: A {Kind} | A A {Kind}; terminals A: 'a';",
    "S: A {kind}; terminals A: 'a';",
    "S: A {nops, nopse, dynamic, left, 5, K, u: 1}; terminals A: 'a';",
    "@vec S: S A | A; terminals A: 'a';",
    "@vec S: A; terminals A: 'a';",
    "@vec S: A A A; terminals A: 'a';",
    "@vec S: EMPTY; terminals A: 'a';",
    "@unknown S: A; terminals A: 'a';",
    "@vec\n@vec S: A; terminals A: 'a';",
    "S: A; terminals @vec A: 'a';",
    "S: A; terminals A: /[/;",
    "S: A; terminals A: //;",
    "S: A; terminals A: /a*/;",
    "S: A; terminals A: /\\//;",
    "S: A; terminals A: '';",
    "S: A; terminals A: '\\'';",
    "S: A; terminals A: 'a\\nb';",
    "S: A; terminals A: \"a\";",
    "S: A; terminals A: 'é𝄞';",
    "S: 'é'; terminals A: 'é';",
    "S: A | ; terminals A: 'a';",
    "S: | A; terminals A: 'a';",
    "S: A;; terminals A: 'a';",
    "S: A terminals A: 'a';",
    "S A; terminals A: 'a';",
    "S: A; terminals A 'a';",
    "S: A; terminals A: 'a'",
    "S: A; terminals terminals A: 'a';",
    "S: A B C D E F G H I J; terminals A: 'a'; B: 'b'; C: 'c'; D: 'd'; E: 'e'; F: 'f'; G: 'g'; H: 'h'; I: 'i'; J: 'j';",
    "S: A x | B x | C; A: a; B: a {20}; C: a x; terminals a: 'a'; x: 'x';",
    "S: A x | B x | C; A: a {left}; B: a {left}; C: a x; terminals a: 'a'; x: 'x' {left};",
    "S: A? A? A? A? A?; terminals A: 'a';",
    "S: S S | S S S | EMPTY | a; terminals a: 'a';",
    "E: E '+' E {1} | E '*' E {2} | Num; terminals Plus: '+' {left}; Mul: '*' {reduce}; Num: /\\d+/;",
    "S: a=A*[B] b=B+[A]; A: 'x'; terminals B: 'b';",
    "S: T1 T2; T1: 'a'; terminals T2: 'b';",
    "S: 'a' 'a'+ 'a'* 'a'?; terminals A: 'a';",
    "S: A1; A1: A; A: 'a'+ ; terminals A_: 'a';",
    "S: A+ A1; A1: 'b'; terminals A: 'a'; B: 'b';",
    "S: A? AOpt; AOpt: 'b'; terminals A: 'a'; B: 'b';",
    "S: A; terminals A: 'a'; B: ;",
    "S: A; terminals A: 'a'; B: {5};",
    "S: A; U: B; terminals A: 'a'; B: ;",
    "S: A; Layout: WS*; terminals A: 'a'; WS: ;",
    "S: A; Layout: WS | EMPTY; terminals A: 'a'; WS: /\\s+/; C: ;",
    "S: A; U: U A | EMPTY; terminals A: 'a'; B: 'b';",
    "S: A; U: V; V: U; terminals A: 'a';",
    "S: A; U: 'x'; terminals A: 'a';",
    "S: A; U: x=A y=A* z=U?; terminals A: /a/;",
    "S: A* A0; A0: 'b'; terminals A: 'a'; B: 'b';",
    // symbol names whose snake-case form is a Rust keyword (with and without an actions file)
    "S: Type;\nterminals\nType: /t+/;\n",
    "S: Box Fn;\nBox: Ta;\nFn: Tb | Box;\nterminals\nTa: 'a';\nTb: /b+/;\n",
    "S: Match+;\nMatch: Loop | While;\nterminals\nLoop: /l\\d/;\nWhile: 'w';\n",
    "S: Self_ Ta;\nSelf_: Tb;\nterminals\nTa: 'a';\nTb: /b/;\n",
    // regexes one or both regex crates refuse
    "S: A;\nterminals\nA: /(b/;\n",
    "S: A B;\nterminals\nA: /[z-a]/;\nB: 'b';\n",
    "S: A;\nterminals\nA: /a{2,1}/;\n",
    "S: A;\nterminals\nA: /\\p{NoSuchClass}+/;\n",
    "S: A;\nterminals\nA: /(?=a)ab/;\n",
    "S: A;\nterminals\nA: /(a)\\1/;\n",
    "S: A;\nterminals\nA: /a**/;\n",
    "S: A;\nterminals\nA: /(?<n>a)(?<n>b)/;\n",
    "S: A;\nterminals\nA: /*a/;\n",
    "S: A;\nterminals\nA: /a|*/;\n",
    // not a regex as written, a regex inside the generated anchor group ^(?:..)
    "S: A;\nterminals\nA: /aa)|(?:bb/;\n",
    "S: A B;\nterminals\nA: /a)(b/;\nB: /b)|(?:a|(c/;\n",
    // production kinds given in the meta-data of the rule (inherited by its productions) that are no identifiers
    "S: Decl;\nDecl {v1.decl}: 'let' Name ';';\nterminals\nName: /\\w+/;\n",
    "S: Value;\nValue {match}: Name | Number {Num};\nterminals\nName: /[a-z]+/;\nNumber: /\\d+/;\n",
    "S: Value+;\nValue {left, 2, a-b}: Name {fn} | Number {Num};\nterminals\nName: /[a-z]+/;\nNumber: /\\d+/;\n",
    // a rule with the name of a terminal; one name twice among the fields of a production
    "A: 'x' B;\nterminals\nA: 'x';\nB: 'b';\n",
    "S: Tb A;\nTb: Ta;\nA: Tb;\nterminals\nTa: 'a';\nTb: 'b';\n",
    "S: x=A x=B;\nterminals\nA: /a/;\nB: /b/;\n",
    "S: foo=Bar Foo;\nterminals\nBar: /a/;\nFoo: /b/;\n",
    "S: Foo FOO | Foo;\nterminals\nFoo: /a/;\nFOO: /b/;\n",
    // reserved / implicit names in the separator position of a repetition and other odd separators
    "S: A+[STOP];\nA: Ta;\nterminals\nTa: 'a';\n",
    "S: A*[STOP] Tb;\nA: Ta;\nterminals\nTa: 'a';\nTb: 'b';\n",
    "S: A+[EMPTY] Tb;\nA: Ta;\nterminals\nTa: 'a';\nTb: 'b';\n",
    "S: A*[AUG];\nA: Ta;\nterminals\nTa: 'a';\n",
    "S: A+[S];\nA: Ta;\nterminals\nTa: 'a';\n",
    "S: A+[A] Tb;\nA: Ta;\nterminals\nTa: 'a';\nTb: 'b';\n",
    "S: A?[Tb] Tb;\nA: Ta;\nterminals\nTa: 'a';\nTb: 'b';\n",
    "S: A+[Tb, Ta];\nA: Ta;\nterminals\nTa: 'a';\nTb: 'b';\n",
    "S: A+[Undefined];\nA: Ta;\nterminals\nTa: 'a';\n",
    "S: 'a'+['b'];\nterminals\nTa: 'a';\nTb: 'b';\n",
    "S: A+[Layout];\nA: Ta;\nLayout: Tb*;\nterminals\nTa: 'a';\nTb: 'b';\n",
    "S: x=STOP? Ta;\nterminals\nTa: 'a';\n",
    // user symbols named like the helper non-terminals of the repetition sugar
    "S: A1;\nA1: A+;\nA: Ta;\nterminals\nTa: 'a';\n",
    "S: A0;\nA0: A*;\nA: Ta;\nterminals\nTa: 'a';\n",
    "S: AOpt Ta;\nAOpt: A?;\nA: Ta;\nterminals\nTa: 'a';\n",
    "S: A+ A1;\nA1: Ta A;\nA: Ta;\nterminals\nTa: 'a';\n",
    "S: A1 A*;\nA1: Ta;\nA0: A;\nA: Ta;\nterminals\nTa: 'a';\n",
    "S: Ta1;\nTa1: Ta+[Ta];\nterminals\nTa: 'a';\n",
    // production kinds / names that only look like identifiers
    "S: B {kind: ' Add'};\nB: Ta;\nterminals\nTa: 'a';\n",
    "S: B {kind: 'Add '} | B B;\nB: Ta;\nterminals\nTa: 'a';\n",
    "S: B {kind: '/*x*/Add'};\nB: Ta;\nterminals\nTa: 'a';\n",
    "S: B {kind: 'r#type'} | B B {Add};\nB: Ta;\nterminals\nTa: 'a';\n",
    "S: B {kind: ''};\nB: Ta;\nterminals\nTa: 'a';\n",
    "S: B {kind: 'Add // c'};\nB: Ta;\nterminals\nTa: 'a';\n",
    "S: B {kind: \"A\\nB\"};\nB: Ta;\nterminals\nTa: 'a';\n",
    "S: B {kind: 'Self'} | B B {kind: 'crate'};\nB: Ta;\nterminals\nTa: 'a';\n",
    "S: B {kind: '_'} | B B {kind: '__'};\nB: Ta;\nterminals\nTa: 'a';\n",
    // integer constants written with non-ASCII decimal digits (\d of the grammar lexer is Unicode-aware)
    "S {\u{663}}: Ta;\nterminals\nTa: 'a' {\u{967}\u{966}};\n",
    "S: Ta {\u{ff11}\u{ff12}} | Ta Ta {weight: \u{663}};\nterminals\nTa: 'a';\n",
];

const HOSTILE_CHARS: &[&str] = &["{", "}", "[", "]", "(", ")", ":", ";", "|", "*", "+", "?", "!", "=", "?=", "@", "'", "\"", "/", "\\", ",", ".", "0", "9", "a", "Z", "_", " ", "\n", "é", "𝄞", "\u{0}", "*!", "+!", "terminals", "EMPTY", "STOP", "Layout", "import", "left", "nops", "@vec", "99999999999"];

fn tokens(text: &str) -> Vec<String> {
    // crude tokenisation good enough for token-level mutation: words, quoted strings, regexes, single characters
    let mut out = vec![];
    let c: Vec<char> = text.chars().collect();
    let mut i = 0;
    while i < c.len() {
        let ch = c[i];
        if ch.is_alphanumeric() || ch == '_' {
            let mut w = String::new();
            while i < c.len() && (c[i].is_alphanumeric() || c[i] == '_') {
                w.push(c[i]);
                i += 1;
            }
            out.push(w);
        } else if ch == '\'' || ch == '"' || (ch == '/' && i + 1 < c.len() && c[i + 1] != '/' && c[i + 1] != '*') {
            let q = ch;
            let mut w = String::from(q);
            i += 1;
            while i < c.len() && c[i] != q && c[i] != '\n' {
                if c[i] == '\\' && i + 1 < c.len() {
                    w.push(c[i]);
                    i += 1;
                }
                w.push(c[i]);
                i += 1;
            }
            if i < c.len() && c[i] == q {
                w.push(q);
                i += 1;
            }
            out.push(w);
        } else {
            out.push(ch.to_string());
            i += 1;
        }
    }
    out
}

/// A character of the same Unicode class (\\d, \\w, \\s of the grammar language's own lexer are Unicode-aware).
fn class_twin(ch: char, rng: &mut Rng) -> Option<char> {
    if let Some(d) = ch.to_digit(10) {
        let base = *rng.pick(&[0x0660u32, 0x06F0, 0x0966, 0xFF10, 0x1D7CE, 0x0E50]);
        return char::from_u32(base + d);
    }
    if ch.is_ascii_alphabetic() {
        return Some(*rng.pick(&['é', 'Ж', 'ß', 'İ', 'ſ', 'ǅ', 'ａ', 'Ａ', 'ª', 'ⅷ', '中', 'ǆ']));
    }
    if ch == '_' {
        return Some(*rng.pick(&['‿', '＿', '⁀']));
    }
    if ch.is_whitespace() {
        return Some(*rng.pick(&['\u{a0}', '\u{85}', '\u{2028}', '\u{3000}', '\u{b}', '\u{c}', '\u{2003}']));
    }
    None
}

const HELPER_SUFFIXES: &[&str] = &["0", "1", "Opt", "Base", "C1", "C2", "Kind", "1Comma", "0Comma", "NoO", "Actions", "Parser"];

pub fn mutate(text: &str, rng: &mut Rng) -> String {
    let r = rng.below(10);
    if r == 8 {
        // look-alikes of the same character class
        let mut c: Vec<char> = text.chars().collect();
        for _ in 0..rng.range(1, 3) {
            let cand: Vec<usize> = (0..c.len()).filter(|&i| c[i].is_ascii_alphanumeric() || c[i] == '_' || c[i].is_whitespace()).collect();
            // digits are rare in grammar texts: prefer them half of the time
            let digits: Vec<usize> = cand.iter().cloned().filter(|&i| c[i].is_ascii_digit()).collect();
            let pool = if !digits.is_empty() && rng.chance(0.5) { &digits } else { &cand };
            if pool.is_empty() {
                break;
            }
            let i = *rng.pick(pool);
            if let Some(t) = class_twin(c[i], rng) {
                c[i] = t;
            }
        }
        return c.into_iter().collect();
    }
    if r == 9 && rng.chance(0.4) {
        // one occurrence of an identifier becomes an implicit / reserved name (any position: separator, assignment, ...)
        let mut t = tokens(text);
        let pos: Vec<usize> = (0..t.len()).filter(|&i| t[i].chars().next().is_some_and(|c| c.is_alphabetic()) && t[i] != "terminals").collect();
        if !pos.is_empty() {
            let i = *rng.pick(&pos);
            t[i] = rng.pick(&["STOP", "EMPTY", "AUG", "AUGL", "Layout", "layout", "terminals", "S"]).to_string();
        }
        return t.concat();
    }
    if r == 9 {
        // a user symbol named like a generated helper of another symbol (X0, X1, XOpt, ...)
        let mut t = tokens(text);
        let ids: Vec<String> = {
            let mut v: Vec<String> = t.iter().filter(|w| w.chars().next().is_some_and(|c| c.is_alphabetic()) && !matches!(w.as_str(), "terminals" | "EMPTY" | "STOP" | "Layout" | "left" | "right" | "reduce" | "shift" | "nops" | "nopse" | "import" | "as" | "vec")).cloned().collect();
            v.sort();
            v.dedup();
            v
        };
        if ids.len() >= 2 {
            let w = rng.pick(&ids).clone();
            let v = rng.pick(&ids).clone();
            if v != w {
                let nn = format!("{}{}", w, rng.pick(HELPER_SUFFIXES));
                for x in t.iter_mut() {
                    if *x == v {
                        *x = nn.clone();
                    }
                }
            }
        }
        return t.concat();
    }
    if r < 4 {
        let mut t = tokens(text);
        for _ in 0..rng.range(1, 3) {
            if t.is_empty() {
                break;
            }
            let i = rng.below(t.len());
            match rng.below(5) {
                0 => {
                    t.remove(i);
                }
                1 => {
                    let x = t[i].clone();
                    t.insert(i, x);
                }
                2 => {
                    let j = rng.below(t.len());
                    t.swap(i, j);
                }
                3 => t.insert(i, rng.pick(HOSTILE_CHARS).to_string()),
                _ => t[i] = rng.pick(HOSTILE_CHARS).to_string(),
            }
        }
        t.concat()
    } else {
        let mut c: Vec<char> = text.chars().collect();
        for _ in 0..rng.range(1, 3) {
            if c.is_empty() {
                break;
            }
            let i = rng.below(c.len());
            match rng.below(3) {
                0 => {
                    c.remove(i);
                }
                1 => {
                    let ins: Vec<char> = rng.pick(HOSTILE_CHARS).chars().collect();
                    for (k, ch) in ins.into_iter().enumerate() {
                        c.insert(i + k, ch);
                    }
                }
                _ => c.truncate(i),
            }
        }
        c.into_iter().collect()
    }
}

pub fn random_spec(rng: &mut Rng) -> SetSpec {
    let glr = rng.chance(0.45);
    SetSpec {
        glr,
        table: if rng.chance(0.3) { None } else { Some(rng.below(3) as u8) },
        ps: if rng.chance(0.3) { None } else { Some(rng.chance(0.5)) },
        pse: if rng.chance(0.3) { None } else { Some(rng.chance(0.5)) },
        builder: if rng.chance(0.35) { 0 } else { 1 },
        gen_table: rng.below(2) as u8,
        loc_info: rng.chance(0.2),
        fancy: rng.chance(0.2),
        noactions: rng.chance(0.15),
        ..Default::default()
    }
}

pub fn judge(text: &str, spec: &SetSpec, origin: &str, wd: &Workdir, rep: &mut Rep, curfile: &Option<String>) {
    let case = || json!({"grammar": text, "settings": spec.to_json(), "origin": origin});
    if let Some(cf) = curfile {
        let _ = std::fs::write(cf, case().to_string());
    }
    crate::rep::watchdog::set(|| case().to_string());
    rep.count("evaluations", 1);
    let c = wd.compile(text, spec);
    let kind = match &c.outcome {
        Outcome::Ok => "ok",
        Outcome::Err(m) if m.trim().is_empty() => "empty-error",
        Outcome::Err(_) => "err",
        Outcome::Panic(_) => "panic",
    };
    rep.count(&format!("outcome:{}", kind), 1);
    let class = match &c.outcome {
        Outcome::Err(m) => {
            let m = m.replace(&wd.dir.to_string_lossy().to_string(), "");
            let key: String = m.chars().filter(|c| c.is_alphabetic() || *c == ' ').collect::<String>().split_whitespace().take(5).collect::<Vec<_>>().join(" ");
            format!("err:{}", key)
        }
        _ => kind.to_string(),
    };
    rep.distinct("nontrivial", fnv(&class));
    rep.distinct("distinct_texts", fnv(text));
    let sig = |k: &str| format!("{}:{}:{}", k, fnv(text), fnv(&spec.to_json().to_string()));
    match &c.outcome {
        Outcome::Panic(m) => rep.violation("C16", &sig("panic"), &format!("compiler panicked instead of returning an error: {}", m.chars().take(300).collect::<String>()), case()),
        Outcome::Err(m) if m.trim().is_empty() => rep.violation("C16", &sig("empty"), "compiler returned an error without a message", case()),
        Outcome::Ok => {
            // "a parser": the written parser builds its regexes with Regex::new(..).unwrap() at first use, so a regex the
            // selected crate refuses means a parser whose every parse panics (C15) - the compiler owes a diagnostic
            if let (Some(d), false) = (&c.dump, spec.custom_lexer) {
                for t in &d.grammar.terminals {
                    if let rustemo_compiler::verif::VRecognizer::Regex(r) = &t.recognizer {
                        let anchored = format!("^(?:{})", r);
                        // as written, too: `aa)|(?:bb` is no regex, yet inside the anchor group it reads ^(?:aa)|(?:bb), valid
                        // and half unanchored (tokens that are not at their span, C13) - a problem the compiler owes an error for
                        let err = [r.as_str(), anchored.as_str()].into_iter().find_map(|re| if spec.fancy { fancy_regex::Regex::new(re).err().map(|e| e.to_string()) } else { regex::Regex::new(re).err().map(|e| e.to_string()) });
                        rep.count("accepted_regex_terminals_checked", 1);
                        if let Some(e) = err {
                            rep.violation("C16", &sig("invalid-regex"), &format!("compiler wrote a parser for terminal {}: /{}/ although {} refuses that regex ({}): the parser panics at its first use", t.name, r, if spec.fancy { "fancy_regex" } else { "regex" }, e.lines().last().unwrap_or("").trim()), case());
                            break;
                        }
                    }
                }
            }
        }
        _ => {}
    }
}

pub fn main(a: &Args) {
    let mut rep = Rep::new(a.out.as_deref());
    rep.max_samples = 4;
    let wd = Workdir::new("c16");
    let mut rng = a.rng(16);
    let curfile = a.out.as_ref().map(|o| format!("{}.cur", o));
    if let Some(path) = &a.replay {
        let v: Value = serde_json::from_str(&std::fs::read_to_string(path).expect("read replay")).expect("json");
        let case = &v["case"];
        judge(case["grammar"].as_str().unwrap(), &SetSpec::from_json(&case["settings"]), "replay", &wd, &mut rep, &None);
        rep.finish();
        return;
    }
    let n = if a.thorough { a.n.unwrap_or(4000) } else { a.n.unwrap_or(300) };
    // every exemplar under a lattice of settings (shard-partitioned)
    let mut bases: Vec<String> = vec![];
    for (i, e) in EXEMPLARS.iter().enumerate() {
        bases.push(e.to_string());
        if i as u64 % a.nshards != a.shard {
            continue;
        }
        for glr in [false, true] {
            for table in [0u8, 1, 2] {
                for (ps, pse) in [(false, true), (true, false)] {
                    for builder in [0u8, 1] {
                        let spec = SetSpec { glr, table: Some(table), ps: Some(ps), pse: Some(pse), builder, ..Default::default() };
                        judge(e, &spec, "exemplar", &wd, &mut rep, &curfile);
                    }
                    if table == 1 {
                        // default builder without an actions file (rcomp --noactions)
                        let spec = SetSpec { glr, table: Some(table), ps: Some(ps), pse: Some(pse), builder: 0, noactions: true, ..Default::default() };
                        judge(e, &spec, "exemplar", &wd, &mut rep, &curfile);
                    }
                }
            }
        }
    }
    let repo: Vec<String> = repo_grammars().into_iter().map(|x| x.1).collect();
    if a.shard == 0 {
        for t in &repo {
            for _ in 0..2 {
                judge(t, &random_spec(&mut rng), "repo grammar", &wd, &mut rep, &curfile);
            }
        }
    }
    let mut i = 0;
    while i < n && rep.elapsed() < a.max_s {
        i += 1;
        let (origin, base) = match rng.below(9) {
            0 => ("exemplar", bases[rng.below(bases.len())].clone()),
            1 => ("repo grammar", repo[rng.below(repo.len())].clone()),
            2 => ("bnf", gen_bnf(&mut rng, &BnfOpts { max_nt: 5, max_t: 4, max_alts: 4, max_len: 4, p_empty: 0.2 }).text()),
            3 => {
                let g = gen_bnf(&mut rng, &BnfOpts { p_empty: 0.2, ..BnfOpts::default() });
                ("bnf+meta", random_meta(&g, &mut rng).text())
            }
            4 => ("sugar", gen_sg(&mut rng).text()),
            5 => ("lex", gen_lex(&mut rng).text()),
            6 => {
                let g = gen_bnf(&mut rng, &BnfOpts::default());
                ("layout", grammar_text(&g, rng.range(1, 7) as u8))
            }
            7 => ("expr", gen_expr(&mut rng).text),
            _ => ("ast", crate::astgen::gen_ast(&mut rng).text()),
        };
        let spec = random_spec(&mut rng);
        if rng.chance(0.3) {
            judge(&base, &spec, origin, &wd, &mut rep, &curfile);
        }
        let mut t = base;
        for _ in 0..rng.range(1, 3) {
            t = mutate(&t, &mut rng);
            judge(&t, &spec, &format!("{} mutated", origin), &wd, &mut rep, &curfile);
        }
        if rep.samples.len() < 3 && rng.chance(0.05) {
            rep.sample(json!({"origin": origin, "mutated_text": t, "settings": spec.to_json()}));
        }
    }
    if let Some(cf) = &curfile {
        let _ = std::fs::remove_file(cf);
    }
    rep.sample(json!({"exemplars": EXEMPLARS.len(), "exemplar_settings_lattice": "LR/GLR x 3 table types x 2 prefer-shift settings x default/generic builder"}));
    rep.finish();
}
