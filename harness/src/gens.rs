//! Workload generators (all driven by the seeded Rng).
use crate::ag::*;
use crate::rng::Rng;

pub const TNAMES: [&str; 14] = ["a", "b", "c", "d", "e", "f", "g", "h", "i", "j", "k", "m", "n", "o"];
pub const NNAMES: [&str; 6] = ["S", "A", "B", "C", "D", "E"];

#[derive(Clone, Copy)]
pub struct BnfOpts {
    pub max_nt: usize,
    pub max_t: usize,
    pub max_alts: usize,
    pub max_len: usize,
    pub p_empty: f64,
}

impl Default for BnfOpts {
    fn default() -> Self {
        BnfOpts { max_nt: 4, max_t: 3, max_alts: 3, max_len: 3, p_empty: 0.15 }
    }
}

pub fn lit_term(i: usize) -> Term {
    Term { name: format!("t{}", TNAMES[i]), rec: Rec::Lit(TNAMES[i].to_string()), meta: Meta::default() }
}

/// Random BNF grammar: left/right/hidden recursion and nullable symbols arise naturally.
pub fn gen_bnf(rng: &mut Rng, o: &BnfOpts) -> AG {
    let nt = rng.range(1, o.max_nt);
    let tt = rng.range(1, o.max_t);
    let terms = (0..tt).map(lit_term).collect();
    let mut rules = vec![];
    for i in 0..nt {
        let na = rng.range(1, o.max_alts);
        let mut alts: Vec<Alt> = vec![];
        for _ in 0..na {
            let len = if rng.chance(o.p_empty) { 0 } else { rng.range(1, o.max_len) };
            let syms: Vec<Sym> = (0..len).map(|_| if rng.chance(0.5) { Sym::T(rng.below(tt)) } else { Sym::N(rng.below(nt)) }).collect();
            if !alts.iter().any(|a| a.syms == syms) {
                alts.push(Alt { syms, meta: Meta::default() });
            }
        }
        rules.push(Rule { name: NNAMES[i].to_string(), alts, meta: Meta::default() });
    }
    AG { terms, rules }
}

/// "Big" family: 10-44 non-terminals, 20-60 terminals with three-character texts (`k07`), every alternative led by a
/// terminal that is distinct within its rule (epsilon-free LL(1), hence conflict-free LR), plus left-recursive lists
/// with a dedicated separator and a few nullable tails. Tables with hundreds of states and wide rows, sentences of
/// dozens of tokens - the sizes small random BNF never reaches.
pub fn gen_big(rng: &mut Rng) -> AG {
    let nn = rng.range(10, 44);
    let nt = (nn * 2 + rng.range(0, 10)).min(60);
    let terms: Vec<Term> = (0..nt).map(|i| Term { name: format!("t{:02}", i), rec: Rec::Lit(format!("k{:02}", i)), meta: Meta::default() }).collect();
    let alt = |syms: Vec<Sym>| Alt { syms, meta: Meta::default() };
    let mut rules: Vec<Rule> = (0..nn).map(|i| Rule { name: if i == 0 { "S".to_string() } else { format!("N{:02}", i) }, alts: vec![], meta: Meta::default() }).collect();
    let mut next_sep = 0usize; // separators are taken from the front of the terminal list and never lead an alternative
    let nsep = (nn / 4).max(1);
    for i in 0..nn {
        if i > 0 && next_sep < nsep && rng.chance(0.25) && i + 1 < nn {
            // left-recursive list over a later non-terminal with its own separator
            let item = rng.range(i + 1, nn - 1);
            let sep = next_sep;
            next_sep += 1;
            rules[i].alts.push(alt(vec![Sym::N(i), Sym::T(sep), Sym::N(item)]));
            rules[i].alts.push(alt(vec![Sym::N(item)]));
            continue;
        }
        let na = rng.range(2, 4);
        let mut leads: Vec<usize> = vec![];
        for a in 0..na {
            let mut lead = rng.range(nsep, nt - 1);
            while leads.contains(&lead) {
                lead = rng.range(nsep, nt - 1);
            }
            leads.push(lead);
            let mut syms = vec![Sym::T(lead)];
            if a > 0 {
                // alternative 0 stays terminal-only (productivity); the others refer to other rules, mostly later ones
                for _ in 0..rng.range(0, 4) {
                    if rng.chance(0.55) {
                        let k = if rng.chance(0.8) && i + 1 < nn { rng.range(i + 1, nn - 1) } else { rng.below(nn) };
                        syms.push(Sym::N(k));
                    } else {
                        syms.push(Sym::T(rng.range(nsep, nt - 1)));
                    }
                }
            } else if rng.chance(0.5) {
                syms.push(Sym::T(rng.range(nsep, nt - 1)));
            }
            rules[i].alts.push(alt(syms));
        }
        if rng.chance(0.08) {
            rules[i].alts.push(alt(vec![]));
        }
    }
    // reachability: every rule is referred to from an earlier one
    for i in 1..nn {
        let referred = rules[..i].iter().any(|r| r.alts.iter().any(|a| a.syms.contains(&Sym::N(i))));
        if !referred {
            let j = rng.below(i);
            let lead_free: Vec<usize> = (nsep..nt).filter(|t| !rules[j].alts.iter().any(|a| a.syms.first() == Some(&Sym::T(*t)))).collect();
            let lead = if lead_free.is_empty() { nsep } else { lead_free[rng.below(lead_free.len())] };
            rules[j].alts.push(alt(vec![Sym::T(lead), Sym::N(i)]));
        }
    }
    AG { terms, rules }
}

/// Top-down ordered grammars: productions that start with nullable non-terminals, followed by a non-terminal that
/// reaches its first terminal only through a chain of rules defined further down, the whole thing standing behind
/// another non-terminal (FIRST / closure fixpoints that need several passes in rule order; round-6 seeded changes).
pub fn gen_topdown(rng: &mut Rng) -> AG {
    fn t(terms: &mut Vec<Term>, rng: &mut Rng) -> Sym {
        if terms.len() < TNAMES.len() {
            terms.push(lit_term(terms.len()));
            Sym::T(terms.len() - 1)
        } else {
            Sym::T(rng.below(terms.len()))
        }
    }
    fn nr(rules: &mut Vec<Rule>, name: String) -> usize {
        rules.push(Rule { name, alts: vec![], meta: Meta::default() });
        rules.len() - 1
    }
    let alt = |syms: Vec<Sym>| Alt { syms, meta: Meta::default() };
    let mut terms: Vec<Term> = vec![];
    let mut rules: Vec<Rule> = vec![];
    nr(&mut rules, "S".into());
    let hdr = if rng.chance(0.75) { Some(nr(&mut rules, "H".into())) } else { None };
    let np = if rng.chance(0.3) { 2 } else { 1 };
    let mut s_alts = vec![];
    for k in 0..np {
        let p = nr(&mut rules, format!("P{}", k));
        let mut syms = vec![match hdr {
            Some(h) => Sym::N(h),
            None => t(&mut terms, rng),
        }];
        syms.push(Sym::N(p));
        if rng.chance(0.6) {
            syms.push(t(&mut terms, rng));
        }
        s_alts.push(alt(syms));
        let nn = rng.range(1, 2);
        let ns: Vec<usize> = (0..nn).map(|j| nr(&mut rules, format!("N{}{}", k, j))).collect();
        let c = nr(&mut rules, format!("C{}", k));
        let mut psyms: Vec<Sym> = ns.iter().map(|&n| Sym::N(n)).collect();
        psyms.push(Sym::N(c));
        if rng.chance(0.3) {
            psyms.push(t(&mut terms, rng));
        }
        rules[p].alts = vec![alt(psyms)];
        if rng.chance(0.25) {
            let x = t(&mut terms, rng);
            rules[p].alts.push(alt(vec![x]));
        }
        for n in ns {
            let a = t(&mut terms, rng);
            rules[n].alts = match rng.below(4) {
                0 => vec![alt(vec![a]), alt(vec![])],
                1 => vec![alt(vec![]), alt(vec![a])],
                2 => vec![alt(vec![Sym::N(n), a]), alt(vec![])],
                _ => vec![alt(vec![])],
            };
        }
        let depth = rng.range(1, 3);
        let mut cur = c;
        for d in 0..depth {
            let nx = nr(&mut rules, format!("D{}{}", k, d));
            rules[cur].alts = vec![alt(vec![Sym::N(nx)])];
            if rng.chance(0.25) {
                let x = t(&mut terms, rng);
                rules[cur].alts.push(alt(vec![x, Sym::N(nx)]));
            }
            cur = nx;
        }
        let x = t(&mut terms, rng);
        rules[cur].alts = vec![alt(vec![x])];
        if rng.chance(0.3) {
            let y = t(&mut terms, rng);
            rules[cur].alts.push(alt(vec![y, x]));
        }
    }
    if let Some(h) = hdr {
        let a = t(&mut terms, rng);
        let mut syms = vec![a];
        if rng.chance(0.5) {
            syms.push(t(&mut terms, rng));
        }
        rules[h].alts = vec![alt(syms)];
    }
    rules[0].alts = s_alts;
    AG { terms, rules }
}

/// "Lists" family: the shapes people write by hand in yacc style - nullable left-/right-recursive lists, lists with
/// separators or terminators, optional parts - placed behind and in front of other non-terminals.
pub fn gen_lists(rng: &mut Rng) -> AG {
    let mut terms: Vec<Term> = vec![];
    let t = |terms: &mut Vec<Term>| {
        terms.push(lit_term(terms.len()));
        Sym::T(terms.len() - 1)
    };
    let alt = |syms: Vec<Sym>| Alt { syms, meta: Meta::default() };
    let mut rules: Vec<Rule> = vec![Rule { name: "S".into(), alts: vec![], meta: Meta::default() }];
    // items: led by their own terminal
    let nitems = rng.range(1, 3);
    let mut items = vec![];
    for k in 0..nitems {
        let lead = t(&mut terms);
        let mut alts = vec![alt(vec![lead])];
        if rng.chance(0.5) && terms.len() < 12 {
            let lead2 = t(&mut terms);
            let tail = if rng.chance(0.5) && terms.len() < 12 { vec![lead2, t(&mut terms)] } else { vec![lead2] };
            alts.push(alt(tail));
        }
        rules.push(Rule { name: format!("I{}", k), alts, meta: Meta::default() });
        items.push(Sym::N(rules.len() - 1));
    }
    // lists / optionals over the items
    let nlists = rng.range(1, 3);
    let mut lists = vec![];
    for k in 0..nlists {
        let it = *rng.pick(&items);
        let me = Sym::N(rules.len());
        let alts = match rng.below(8) {
            0 => vec![alt(vec![me, it]), alt(vec![])],
            1 => vec![alt(vec![]), alt(vec![me, it])],
            2 if terms.len() < 12 => vec![alt(vec![me, it, t(&mut terms)]), alt(vec![])],
            3 => vec![alt(vec![it, me]), alt(vec![])],
            4 if terms.len() < 12 => vec![alt(vec![me, t(&mut terms), it]), alt(vec![it])],
            5 => vec![alt(vec![it]), alt(vec![me, it])],
            6 => vec![alt(vec![it]), alt(vec![])],
            _ => {
                // list of a list / of an optional defined earlier
                let inner = if lists.is_empty() { it } else { *rng.pick(&lists) };
                if terms.len() < 12 {
                    vec![alt(vec![me, t(&mut terms), inner]), alt(vec![])]
                } else {
                    vec![alt(vec![me, it]), alt(vec![])]
                }
            }
        };
        rules.push(Rule { name: format!("L{}", k), alts, meta: Meta::default() });
        lists.push(me);
    }
    // sequences: lists behind and in front of non-terminals and terminals
    let nalts = rng.range(1, 3);
    for _ in 0..nalts {
        let mut syms = vec![];
        if rng.chance(0.7) && terms.len() < 13 {
            syms.push(t(&mut terms));
        }
        for _ in 0..rng.range(1, 3) {
            if rng.chance(0.5) {
                syms.push(*rng.pick(&items));
            }
            syms.push(*rng.pick(&lists));
            if rng.chance(0.4) && terms.len() < 13 {
                syms.push(t(&mut terms));
            }
        }
        if rng.chance(0.6) && terms.len() < 14 {
            syms.push(t(&mut terms));
        }
        rules[0].alts.push(alt(syms));
    }
    if terms.is_empty() {
        t(&mut terms);
    }
    AG { terms, rules }
}

/// "Ambiguous prefix, nullable tail" family (C03): productions of 4-6 symbols whose first symbols can split the same
/// stretch in several ways and whose last 2-3 symbols are nullable - several right-nulled solutions of one production
/// share their last edge and differ in the earlier children.
pub fn gen_amb_tails(rng: &mut Rng) -> AG {
    let mut terms: Vec<Term> = vec![];
    let t = |terms: &mut Vec<Term>| {
        terms.push(lit_term(terms.len()));
        Sym::T(terms.len() - 1)
    };
    let alt = |syms: Vec<Sym>| Alt { syms, meta: Meta::default() };
    let mut rules: Vec<Rule> = vec![Rule { name: "S".into(), alts: vec![], meta: Meta::default() }];
    let shared = t(&mut terms); // the letter the splitters compete for
    let nsplit = rng.range(2, 3);
    let ntail = rng.range(2, 3);
    let mut body = vec![];
    if rng.chance(0.4) {
        body.push(t(&mut terms));
    }
    for k in 0..nsplit {
        let me = rules.len();
        let mut alts = vec![alt(vec![shared]), alt(vec![shared, shared])];
        if rng.chance(0.3) {
            alts.push(alt(vec![shared, shared, shared]));
        }
        if rng.chance(0.2) {
            alts.push(alt(vec![Sym::N(me), shared]));
        }
        rules.push(Rule { name: format!("P{}", k), alts, meta: Meta::default() });
        body.push(Sym::N(me));
    }
    for k in 0..ntail {
        let me = rules.len();
        let own = t(&mut terms);
        let alts = match rng.below(3) {
            0 => vec![alt(vec![own]), alt(vec![])],
            1 => vec![alt(vec![]), alt(vec![own, own])],
            _ => vec![alt(vec![own]), alt(vec![]), alt(vec![own, shared])],
        };
        rules.push(Rule { name: format!("Q{}", k), alts, meta: Meta::default() });
        body.push(Sym::N(me));
    }
    rules[0].alts.push(alt(body.clone()));
    if rng.chance(0.5) {
        // the same production again inside a list, so that its reductions meet existing heads
        rules[0].alts.push(alt(vec![Sym::N(0), Sym::N(0)]));
    }
    AG { terms, rules }
}

/// "Context" family: a few shared non-terminals (unit chains down to a nullable or
/// non-nullable leaf) used under several prefixes and followers. Finite languages whose
/// LALR automata need look-aheads to travel through merges and several closure hops —
/// the shapes small random BNF rarely produces.
pub fn gen_ctx(rng: &mut Rng) -> AG {
    let nshared = rng.range(2, 3);
    let nfollow = rng.range(2, 3);
    let nctx = rng.range(2, 4);
    let mut terms: Vec<Term> = vec![];
    let mut t = |terms: &mut Vec<Term>| {
        terms.push(lit_term(terms.len()));
        terms.len() - 1
    };
    let prefixes: Vec<usize> = (0..nctx).map(|_| t(&mut terms)).collect();
    let followers: Vec<usize> = (0..nfollow).map(|_| t(&mut terms)).collect();
    let head = t(&mut terms);
    let mut rules: Vec<Rule> = vec![Rule { name: "S".into(), alts: vec![], meta: Meta::default() }];
    let alt = |syms: Vec<Sym>| Alt { syms, meta: Meta::default() };
    // shared non-terminals
    let mut shared = vec![];
    for si in 0..nshared {
        let idx = rules.len();
        rules.push(Rule { name: format!("P{}", si), alts: vec![], meta: Meta::default() });
        shared.push(idx);
        let depth = rng.range(0, 3);
        let mut body = vec![Sym::T(head)];
        if depth == 0 {
            if rng.chance(0.6) {
                body.push(Sym::T(t(&mut terms)));
            }
        } else {
            // chain X1: X2; ... Xd: leaf | EMPTY
            let mut prev: Option<usize> = None;
            let first = rules.len();
            for d in 0..depth {
                let i = rules.len();
                rules.push(Rule { name: format!("X{}_{}", si, d), alts: vec![], meta: Meta::default() });
                if let Some(p) = prev {
                    rules[p].alts.push(alt(vec![Sym::N(i)]));
                }
                prev = Some(i);
            }
            let leaf = t(&mut terms);
            let last = prev.unwrap();
            rules[last].alts.push(alt(vec![Sym::T(leaf)]));
            if rng.chance(0.7) {
                rules[last].alts.push(alt(vec![]));
            }
            if rng.chance(0.5) {
                body.push(Sym::N(first));
            } else {
                body.insert(0, Sym::N(first));
            }
        }
        rules[idx].alts.push(alt(body));
    }
    // contexts
    for c in 0..nctx {
        let q = rules.len();
        rules.push(Rule { name: format!("Q{}", c), alts: vec![], meta: Meta::default() });
        let mut s = vec![Sym::T(prefixes[c]); rng.range(1, 3)];
        s.push(Sym::N(q));
        rules[0].alts.push(alt(s));
        let mut used = vec![];
        for _ in 0..rng.range(1, 2) {
            let sh = shared[rng.below(shared.len())];
            let f = followers[rng.below(followers.len())];
            if used.contains(&(sh, f)) {
                continue;
            }
            used.push((sh, f));
            rules[q].alts.push(alt(vec![Sym::N(sh), Sym::T(f)]));
        }
    }
    if rng.chance(0.3) {
        // one context without prefix indirection
        let sh = shared[rng.below(shared.len())];
        let f = followers[rng.below(followers.len())];
        let p = prefixes[0];
        rules[0].alts.push(alt(vec![Sym::T(p), Sym::N(sh), Sym::T(f)]));
    }
    AG { terms, rules }
}

/// Mini notation: `S: A b | EMPTY; A: a A | a` — capitalised = non-terminal,
/// lower-case word = terminal whose literal is the word itself.
pub fn parse_mini(src: &str) -> AG {
    let mut rule_names: Vec<String> = vec![];
    let mut bodies: Vec<Vec<Vec<String>>> = vec![];
    for r in src.split(';') {
        let r = r.trim();
        if r.is_empty() {
            continue;
        }
        let (name, body) = r.split_once(':').expect("mini rule");
        rule_names.push(name.trim().to_string());
        bodies.push(body.split('|').map(|a| a.split_whitespace().map(|s| s.to_string()).collect()).collect());
    }
    let mut terms: Vec<Term> = vec![];
    let mut rules = vec![];
    for (name, alts) in rule_names.iter().zip(bodies.iter()) {
        let mut out = vec![];
        for a in alts {
            let mut syms = vec![];
            for s in a {
                if s == "EMPTY" {
                    continue;
                }
                if let Some(i) = rule_names.iter().position(|n| n == s) {
                    syms.push(Sym::N(i));
                } else {
                    let i = match terms.iter().position(|t| matches!(&t.rec, Rec::Lit(l) if l == s)) {
                        Some(i) => i,
                        None => {
                            terms.push(Term { name: format!("t{}", s), rec: Rec::Lit(s.clone()), meta: Meta::default() });
                            terms.len() - 1
                        }
                    };
                    syms.push(Sym::T(i));
                }
            }
            out.push(Alt { syms, meta: Meta::default() });
        }
        rules.push(Rule { name: name.clone(), alts: out, meta: Meta::default() });
    }
    AG { terms, rules }
}

/// Literature grammars (name, mini source).
pub const CORPUS: &[(&str, &str)] = &[
    ("dragon_4_55", "S: C C; C: c C | d"),
    ("dragon_expr", "E: E p T | T; T: T m F | F; F: l E r | i"),
    // the full G8 of Nozohoor-Farshi (one production reduced at two dot positions in one right-nulled state)
    ("farshi_g8_full", "S: x | B S b | A S b; B: A A; A: EMPTY"),
    ("dragon_4_58_lr1_not_lalr", "S: a A d | b B d | a B e | b A e; A: c; B: c"),
    ("dragon_4_20_slr_conflict", "S: L q R | R; L: s R | i; R: L"),
    ("pager_g1", "G: a X d | a Y c | b X c | b Y d; X: e X | e; Y: e Y | e"),
    ("pager_g2", "G: a X d | a Y c | b X c | b Y d; X: e X | e; Y: e Y | e | EMPTY"),
    ("lalrpop768", "S: U a | V b | c U b | c V a; U: X; V: X; X: d"),
    ("knuth_lr1", "S: a A d | a B e | b A e | b B d; A: c A | c; B: c B | c"),
    ("dangling_else", "S: i S | i S e S | x"),
    ("ambig_expr", "E: E p E | E m E | l E r | n"),
    ("highly_ambiguous", "S: b | S S | S S S"),
    ("unbounded_ambiguity", "S: b | S S"),
    ("bounded_ambiguity", "S: B | C; B: b B | b; C: b C | b"),
    ("farshi_g7", "S: a S a | B S b | x; B: EMPTY"),
    ("farshi_g8", "S: A S b | x; A: EMPTY"),
    ("right_nullable_g2", "S: a S A | EMPTY; A: EMPTY"),
    ("reduce_enough_empty", "S: A B C a; A: EMPTY; B: EMPTY; C: EMPTY"),
    ("reduce_enough_many_empty", "S: A B C D a | A B C D b; A: EMPTY | x; B: EMPTY; C: EMPTY | y; D: EMPTY"),
    ("palindromes_even", "S: a S a | b S b | EMPTY"),
    ("palindromes_odd", "S: a S a | b S b | a | b"),
    ("nullable_mid", "S: a B c; B: b | EMPTY"),
    ("nullable_chain", "S: A B C; A: a | EMPTY; B: b | EMPTY; C: c | EMPTY"),
    ("hidden_left_rec", "S: A S b | a; A: EMPTY"),
    ("hidden_left_rec2", "S: B S a | c; B: b | EMPTY"),
    ("hidden_right_rec", "S: a S B | a; B: EMPTY"),
    ("left_list", "L: L c I | I; I: a | b"),
    ("right_list", "L: I c L | I; I: a | b"),
    ("opt_tail", "S: a T; T: b T | EMPTY"),
    ("nested_nullable", "S: A A b; A: B B; B: a | EMPTY"),
    ("lr2_not_lr1", "S: A x a | B x b; A: c; B: c"),
    ("inherently_ambiguous", "S: X C | A Y; X: a X b | a b; C: c C | c; A: a A | a; Y: b Y c | b c"),
    ("json_like", "V: o M c | l E r | s | n; M: P | M k P | EMPTY; P: s d V; E: V | E k V | EMPTY"),
    ("stmt_list", "P: L; L: L S | EMPTY; S: i q E t | b L e; E: E p n | n"),
    ("two_nullable_alts", "S: A x | B y; A: a | EMPTY; B: b | EMPTY"),
    ("eps_tail_pair", "S: a B; B: C D; C: c | EMPTY; D: d | EMPTY"),
    ("lookahead_through_merge", "S: k P t | m Q | n n n R; Q: P u | W v; R: P t | W v; P: a X; W: a c; X: Y; Y: y | EMPTY"),
];

pub fn corpus() -> Vec<(String, AG)> {
    CORPUS.iter().map(|(n, s)| (n.to_string(), parse_mini(s))).collect()
}

/// All token strings over an alphabet of `nterms` up to length l (l+1 layers).
pub fn all_strings(nterms: usize, l: usize) -> Vec<Vec<usize>> {
    let mut out = vec![vec![]];
    let mut cur: Vec<Vec<usize>> = vec![vec![]];
    for _ in 0..l {
        let mut next = Vec::with_capacity(cur.len() * nterms);
        for s in &cur {
            for t in 0..nterms {
                let mut n = s.clone();
                n.push(t);
                next.push(n);
            }
        }
        out.extend(next.iter().cloned());
        cur = next;
    }
    out
}

/// Bound on string length so that |alphabet|^L stays under `cap` strings.
pub fn len_for(nterms: usize, want: usize, cap: usize) -> usize {
    let mut l = want;
    loop {
        let mut total: usize = 0;
        let mut p: usize = 1;
        for _ in 0..=l {
            total = total.saturating_add(p);
            p = p.saturating_mul(nterms.max(1));
        }
        if total <= cap || l == 0 {
            return l;
        }
        l -= 1;
    }
}

/// Random sentence by random derivation steered by min-lengths; None if budget exceeded.
pub fn random_sentence(g: &AG, rng: &mut Rng, budget: usize) -> Option<Vec<usize>> {
    let minlen = g.minlen();
    if minlen[0] >= INF {
        return None;
    }
    let mut out = vec![];
    let mut steps = 0usize;
    fn go(g: &AG, r: usize, rng: &mut Rng, minlen: &[usize], out: &mut Vec<usize>, left: isize, steps: &mut usize, depth: usize) -> bool {
        *steps += 1;
        if *steps > 2000 || depth > 60 {
            return false;
        }
        let alts = &g.rules[r].alts;
        let seqmin = |a: &Alt| a.syms.iter().map(|s| match s { Sym::T(_) => 1usize, Sym::N(k) => minlen[*k] }).fold(0usize, |x, y| x.saturating_add(y));
        let viable: Vec<&Alt> = alts.iter().filter(|a| seqmin(a) < INF).collect();
        if viable.is_empty() {
            return false;
        }
        // prefer alternatives fitting the remaining budget; else the shortest one
        let fitting: Vec<&&Alt> = viable.iter().filter(|a| (seqmin(a) as isize) <= left).collect();
        let alt: &Alt = if !fitting.is_empty() && depth < 40 { fitting[rng.below(fitting.len())] } else { viable.iter().min_by_key(|a| seqmin(a)).unwrap() };
        let mut left = left - seqmin(alt) as isize;
        for s in &alt.syms {
            match s {
                Sym::T(t) => out.push(*t),
                Sym::N(k) => {
                    let before = out.len();
                    if !go(g, *k, rng, minlen, out, left + minlen[*k] as isize, steps, depth + 1) {
                        return false;
                    }
                    left -= (out.len() - before) as isize - minlen[*k] as isize;
                }
            }
        }
        true
    }
    if go(g, 0, rng, &minlen, &mut out, budget as isize, &mut steps, 0) {
        Some(out)
    } else {
        None
    }
}

pub const WS_CHOICES: [&str; 12] = [" ", "  ", "\t", "\n", "\r\n", " \n ", "\n\n", "\n\u{a0}", "\n\u{3000} ", "\u{2003}", "\r\n\u{a0}\u{a0}\t", "\u{a0}\n"];

/// Non-ASCII, partly multi-line literals (prefix-free: distinct first characters).
pub const ULITS: [&str; 14] = ["é", "ж", "日本", "ц\nц", "ü", "ß", "λx", "→", "𝄞", "ñ\nñ é", "ø", "ÿ\r\nÿ", "ა", "Ω"];

/// Replace the single-letter literals by non-ASCII ones (terminal names stay).
pub fn unicodeify(g: &mut AG, rng: &mut Rng) {
    let mut idx: Vec<usize> = (0..ULITS.len()).collect();
    rng.shuffle(&mut idx);
    for (i, t) in g.terms.iter_mut().enumerate() {
        if i < idx.len() {
            t.rec = Rec::Lit(ULITS[idx[i]].to_string());
        }
    }
}

/// Render a token string: tokens separated by `sep(i)`; returns (input, token spans).
pub fn render(g: &AG, w: &[usize], mut sep: impl FnMut(usize) -> String, lead: &str, trail: &str) -> (String, Vec<(usize, usize, usize)>) {
    let mut input = String::from(lead);
    let mut toks = vec![];
    for (i, t) in w.iter().enumerate() {
        if i > 0 {
            input.push_str(&sep(i));
        }
        let st = input.len();
        match &g.terms[*t].rec {
            Rec::Lit(l) => input.push_str(l),
            Rec::Re(_) => panic!("render of regex terminal needs a text"),
        }
        toks.push((*t, st, input.len()));
    }
    input.push_str(trail);
    (input, toks)
}

pub fn render_plain(g: &AG, w: &[usize]) -> (String, Vec<(usize, usize, usize)>) {
    render(g, w, |_| " ".to_string(), "", "")
}

pub fn render_ws(g: &AG, w: &[usize], rng: &mut Rng) -> (String, Vec<(usize, usize, usize)>) {
    let lead = if rng.chance(0.3) { *rng.pick(&WS_CHOICES) } else { "" };
    let trail = if rng.chance(0.3) { *rng.pick(&WS_CHOICES) } else { "" };
    let mut r2 = rng.clone();
    let res = render(g, w, |_| r2.pick(&WS_CHOICES).to_string(), lead, trail);
    *rng = r2;
    res
}
