//! C17: parser generation is deterministic (fresh processes with fresh hash
//! seeds, different processing orders) and the rcomp command line is
//! equivalent to the library API.
use crate::ag::fnv;
use crate::astgen::*;
use crate::c15::repo_grammars;
use crate::rep::{Args, Rep};
use crate::rng::Rng;
use rustemo_compiler::{BuilderType, GeneratorTableType, LexerType, ParserAlgo, Settings, TableType};
use serde_json::{json, Value};
use std::path::{Path, PathBuf};
use std::process::Command;

#[derive(Clone, Debug)]
pub struct Flags {
    pub glr: bool,
    pub table: Option<u8>,
    pub prefer_shifts: bool,
    pub no_shifts_over_empty: bool,
    pub arrays: Option<bool>,
    pub builder: Option<u8>,
    pub loc_info: bool,
    pub fancy: bool,
    pub partial: bool,
    pub no_skip_ws: bool,
    pub custom_lexer: bool,
    pub ms: Option<bool>,
    pub lm: Option<bool>,
    pub go: Option<bool>,
    pub noactions: bool,
}

impl Flags {
    pub fn none() -> Flags {
        Flags { glr: false, table: None, prefer_shifts: false, no_shifts_over_empty: false, arrays: None, builder: None, loc_info: false, fancy: false, partial: false, no_skip_ws: false, custom_lexer: false, ms: None, lm: None, go: None, noactions: false }
    }
    /// argv of rcomp (besides the grammar path); -f so that actions are always regenerated
    pub fn argv(&self) -> Vec<String> {
        let mut a: Vec<String> = vec!["-f".into()];
        if self.glr {
            a.extend(["--parser-algo".into(), "glr".into()]);
        }
        if let Some(t) = self.table {
            a.extend(["--table-type".into(), ["lalr", "lalr-pager", "lalr-rn"][t as usize].into()]);
        }
        if self.prefer_shifts {
            a.push("--prefer-shifts".into());
        }
        if self.no_shifts_over_empty {
            a.push("--no-shifts-over-empty".into());
        }
        if let Some(x) = self.arrays {
            a.extend(["--generator-table-type".into(), if x { "arrays" } else { "functions" }.into()]);
        }
        if let Some(b) = self.builder {
            a.extend(["--builder-type".into(), ["default", "generic", "custom"][b as usize].into()]);
        }
        if self.loc_info {
            a.push("--builder-loc-info".into());
        }
        if self.fancy {
            a.push("--fancy-regex".into());
        }
        if self.partial {
            a.push("--partial-parse".into());
        }
        if self.no_skip_ws {
            a.push("--no-skip-ws".into());
        }
        if self.custom_lexer {
            a.extend(["--lexer-type".into(), "custom".into()]);
        }
        if let Some(x) = self.ms {
            a.push(format!("--lexical-disamb-most-specific={}", x));
        }
        if let Some(x) = self.lm {
            a.push(format!("--lexical-disamb-longest-match={}", x));
        }
        if let Some(x) = self.go {
            a.push(format!("--lexical-disamb-grammar-order={}", x));
        }
        if self.noactions {
            a.push("--noactions".into());
        }
        a
    }
    /// The library calls that the documentation of each option prescribes, applied in the
    /// order rcomp applies them (table type before parser algorithm, lexical options last).
    pub fn settings(&self) -> Settings {
        let mut s = Settings::new()
            .force(true)
            .actions(!self.noactions)
            .prefer_shifts(self.prefer_shifts)
            .prefer_shifts_over_empty(!self.no_shifts_over_empty)
            .fancy_regex(self.fancy)
            .partial_parse(self.partial)
            .skip_ws(!self.no_skip_ws)
            .table_type(match self.table {
                Some(0) => TableType::LALR,
                Some(2) => TableType::LALR_RN,
                _ => TableType::LALR_PAGER,
            })
            .parser_algo(if self.glr { ParserAlgo::GLR } else { ParserAlgo::LR })
            .generator_table_type(if self.arrays == Some(true) { GeneratorTableType::Arrays } else { GeneratorTableType::Functions })
            .lexer_type(if self.custom_lexer { LexerType::Custom } else { LexerType::Default })
            .builder_type(match self.builder {
                Some(1) => BuilderType::Generic,
                Some(2) => BuilderType::Custom,
                _ => BuilderType::Default,
            })
            .builder_loc_info(self.loc_info);
        if let Some(x) = self.ms {
            s = s.lexical_disamb_most_specific(x);
        }
        if let Some(x) = self.lm {
            s = s.lexical_disamb_longest_match(x);
        }
        if let Some(x) = self.go {
            s = s.lexical_disamb_grammar_order(x);
        }
        s
    }
    pub fn random(rng: &mut Rng) -> Flags {
        let glr = rng.chance(0.4);
        Flags {
            glr,
            table: if rng.chance(0.4) { Some(rng.below(3) as u8) } else { None },
            prefer_shifts: rng.chance(0.5),
            no_shifts_over_empty: rng.chance(0.3),
            arrays: if rng.chance(0.5) { Some(rng.chance(0.5)) } else { None },
            builder: if rng.chance(0.5) { Some(rng.below(3) as u8) } else { None },
            loc_info: rng.chance(0.3),
            fancy: rng.chance(0.3),
            partial: rng.chance(0.3),
            no_skip_ws: rng.chance(0.3),
            custom_lexer: rng.chance(0.15),
            ms: if rng.chance(0.3) { Some(rng.chance(0.5)) } else { None },
            lm: if rng.chance(0.3) { Some(rng.chance(0.5)) } else { None },
            // grammar order can only be switched off for GLR (the library panics otherwise; not exercised here)
            go: if rng.chance(0.3) { Some(if glr { rng.chance(0.5) } else { true }) } else { None },
            noactions: rng.chance(0.1),
        }
    }
    /// one flag at a time
    pub fn singles() -> Vec<Flags> {
        let n = Flags::none();
        vec![
            n.clone(),
            Flags { glr: true, ..n.clone() },
            Flags { table: Some(0), ..n.clone() },
            Flags { table: Some(1), ..n.clone() },
            Flags { table: Some(2), ..n.clone() },
            Flags { prefer_shifts: true, ..n.clone() },
            Flags { no_shifts_over_empty: true, ..n.clone() },
            Flags { arrays: Some(true), ..n.clone() },
            Flags { arrays: Some(false), ..n.clone() },
            Flags { builder: Some(0), ..n.clone() },
            Flags { builder: Some(1), ..n.clone() },
            Flags { builder: Some(2), ..n.clone() },
            Flags { loc_info: true, ..n.clone() },
            Flags { fancy: true, ..n.clone() },
            Flags { partial: true, ..n.clone() },
            Flags { no_skip_ws: true, ..n.clone() },
            Flags { custom_lexer: true, builder: Some(1), ..n.clone() },
            Flags { ms: Some(false), ..n.clone() },
            Flags { ms: Some(true), ..n.clone() },
            Flags { lm: Some(false), ..n.clone() },
            Flags { lm: Some(true), ..n.clone() },
            Flags { go: Some(true), ..n.clone() },
            Flags { glr: true, go: Some(false), ..n.clone() },
            Flags { glr: true, go: Some(true), ..n.clone() },
            Flags { glr: true, table: Some(0), ..n.clone() },
            Flags { noactions: true, ..n.clone() },
        ]
    }
}

/// (parser file, actions file) produced in dir for g.rustemo; None = file not written
fn outputs(dir: &Path) -> (Option<Vec<u8>>, Option<Vec<u8>>) {
    (std::fs::read(dir.join("g.rs")).ok(), std::fs::read(dir.join("g_actions.rs")).ok())
}

fn fresh(base: &Path, tag: &str, text: &str) -> PathBuf {
    let d = base.join(tag);
    let _ = std::fs::remove_dir_all(&d);
    std::fs::create_dir_all(&d).unwrap();
    std::fs::write(d.join("g.rustemo"), text).unwrap();
    d
}

fn run_cli(rcomp: &str, dir: &Path, flags: &Flags) -> Result<(), String> {
    let out = Command::new(rcomp).args(flags.argv()).arg(dir.join("g.rustemo")).env_remove("OUT_DIR").env_remove("CARGO_MANIFEST_DIR").output().map_err(|e| e.to_string())?;
    if !out.status.success() {
        return Err(format!("rcomp exit status {:?}: {}", out.status.code(), String::from_utf8_lossy(&out.stderr).chars().take(300).collect::<String>()));
    }
    Ok(())
}

fn run_api(dir: &Path, flags: &Flags) -> Result<bool, String> {
    let s = flags.settings();
    match crate::dynp::guarded(|| s.process_grammar(&dir.join("g.rustemo"))) {
        Ok(Ok(())) => Ok(true),
        Ok(Err(_)) => Ok(false),
        Err(m) => Err(format!("library call panicked: {:?}", m)),
    }
}

fn first_diff(a: &[u8], b: &[u8]) -> String {
    let (sa, sb) = (String::from_utf8_lossy(a), String::from_utf8_lossy(b));
    for (i, (x, y)) in sa.lines().zip(sb.lines()).enumerate() {
        if x != y {
            return format!("line {}: `{}` vs `{}`", i + 1, x.trim().chars().take(120).collect::<String>(), y.trim().chars().take(120).collect::<String>());
        }
    }
    format!("lengths {} vs {}", a.len(), b.len())
}

/// Choice names are derived from the symbols of an alternative and made unique by numbering: alternatives that refer to
/// the same symbol several times, plainly and through the `+`/`*`/`?` sugar (whose helpers are called `X1`, `X0`, `XOpt`),
/// so that one duplicated name is another duplicated name plus a number.
pub fn choice_name_stress(rng: &mut Rng) -> String {
    let wraps = [("", ""), ("'(' ", " ')'"), ("'[' ", " ']'"), ("'{' ", " '}'"), ("'<' ", " '>'"), ("'|' ", " '|'")];
    let mut idx: Vec<usize> = (0..wraps.len()).collect();
    rng.shuffle(&mut idx);
    let n = rng.range(3, 6);
    let mut alts = vec![];
    for k in 0..n {
        let (a, b) = wraps[idx[k]];
        let sym = match rng.below(6) {
            0 | 1 => "Item",
            2 | 3 => "Item+",
            4 => "Item*",
            _ => "Item?",
        };
        alts.push(format!("{}{}{}", a, sym, b));
    }
    let extra = if rng.chance(0.4) { "Item1x: Item Item;\n" } else { "" };
    format!("Group: {};\n{}Item: Num | Id;\nterminals\nId: /x\\d+/;\nNum: /\\d+/;\nOP: '(';\nCP: ')';\nOB: '[';\nCB: ']';\nOC: '{{';\nCC: '}}';\nLT: '<';\nGT: '>';\nBar: '|';\n", alts.join("\n    | "), extra)
}

pub fn dedupe_stress(rng: &mut Rng) -> String {
    if rng.chance(0.6) {
        return choice_name_stress(rng);
    }
    // production kinds repeated inside one rule: K, K, K1, K1 ... (name de-duplication)
    let pool = ["K", "K1", "K2", "Add", "Add1"];
    let n = rng.range(3, 6);
    let shapes = ["Id Num", "Num Id", "Id Id", "Num Num", "Id Num Id", "Num", "Id"];
    let mut alts = vec![];
    for i in 0..n {
        let lim = if rng.chance(0.7) { 2 } else { 5 };
        let sh = shapes[(i + rng.below(3)) % shapes.len()];
        alts.push(format!("{} {{{}}}", sh, pool[rng.below(lim)]));
    }
    alts.dedup();
    format!("Expr: {};\nterminals\nId: /x\\d+/;\nNum: /\\d+/;\n", alts.join("\n    | "))
}

/// Several terminals with the same string recogniser, referenced inline: which one does the literal resolve to?
pub fn dup_literal(rng: &mut Rng) -> String {
    let ops = ["-", "+", "*"];
    let n = rng.range(1, 2);
    let mut alts = vec![];
    let mut terms = String::new();
    let names = [["Minus", "Neg", "Dash"], ["Plus", "Pos", "Add"], ["Star", "Mul", "Times"]];
    for i in 0..n {
        alts.push(format!("Expr '{}' Expr {{left}}", ops[i]));
        if rng.chance(0.5) {
            alts.push(format!("'{}' Expr {{right}}", ops[i]));
        }
        let k = rng.range(2, 3);
        let mut idx: Vec<usize> = (0..3).collect();
        rng.shuffle(&mut idx);
        for j in 0..k {
            let meta = if rng.chance(0.4) { format!(" {{{}}}", rng.pick(&["left", "right", "5", "15"])) } else { String::new() };
            terms.push_str(&format!("{}: '{}'{};\n", names[i][idx[j]], ops[i], meta));
        }
    }
    alts.push("Num".into());
    format!("Expr: {};\nterminals\n{}Num: /\\d+/;\n", alts.join("\n    | "), terms)
}

pub fn judge(text: &str, origin: &str, flags: &Flags, k: usize, rcomp: &str, base: &Path, rep: &mut Rep) {
    let case = |extra: Value| json!({"grammar": text, "origin": origin, "argv": flags.argv(), "extra": extra});
    let sig = |kind: &str| format!("{}:{}:{}", kind, fnv(text), fnv(&flags.argv().join(" ")));
    crate::rep::watchdog::set(|| case(json!(null)).to_string());
    rep.count("evaluations", 1);
    // (a) k fresh processes (each has its own hash seeds)
    let mut first: Option<(Option<Vec<u8>>, Option<Vec<u8>>)> = None;
    for i in 0..k {
        let d = fresh(base, &format!("cli{}", i), text);
        if let Err(e) = run_cli(rcomp, &d, flags) {
            rep.harness_error(&format!("rcomp could not be run: {}", e), case(json!(null)));
            return;
        }
        let o = outputs(&d);
        rep.count("cli_processes", 1);
        match &first {
            None => first = Some(o),
            Some(f) => {
                if f.0 != o.0 || f.1 != o.1 {
                    let which = if f.0 != o.0 { "parser" } else { "actions" };
                    let d = match which {
                        "parser" => first_diff(f.0.as_deref().unwrap_or(b""), o.0.as_deref().unwrap_or(b"")),
                        _ => first_diff(f.1.as_deref().unwrap_or(b""), o.1.as_deref().unwrap_or(b"")),
                    };
                    rep.violation("C17", &sig("nondeterministic"), &format!("two fresh rcomp processes wrote different {} files for the same grammar and options ({})", which, d), case(json!({"process": i})));
                    return;
                }
            }
        }
    }
    let cli = first.unwrap();
    if cli.0.is_some() {
        rep.distinct("nontrivial", fnv(&format!("{}|{}", text, flags.argv().join(" "))));
        rep.distinct("flag_vectors", fnv(&flags.argv().join(" ")));
    } else {
        rep.count("grammar_rejected_under_these_options", 1);
    }
    // (d) an output directory that already holds the files of other option vectors (rcomp writes next to the grammar,
    // so switching options rewrites existing files): same bytes as in a fresh directory. -f regenerates the actions too.
    if cli.0.is_some() {
        let alts = [
            Flags { glr: !flags.glr, table: None, ..flags.clone() },
            Flags { arrays: Some(!flags.arrays.unwrap_or(false)), ..flags.clone() },
            Flags { builder: Some(if flags.builder.unwrap_or(0) == 0 { 1 } else { 0 }), loc_info: !flags.loc_info, ..flags.clone() },
        ];
        let d = fresh(base, "hist", text);
        let mut prepared = 0;
        for alt in &alts {
            if run_cli(rcomp, &d, alt).is_ok() && d.join("g.rs").exists() {
                prepared += 1;
            }
            // the vector under test after every other one: whichever direction shrinks or grows the files
            if run_cli(rcomp, &d, flags).is_ok() {
                let o = outputs(&d);
                rep.count("regenerations_over_existing_files", 1);
                // a file this vector does not write at all (no actions with the generic builder) may be left over
                if o.0 != cli.0 || (cli.1.is_some() && o.1 != cli.1) {
                    let which = if o.0 != cli.0 { "parser" } else { "actions" };
                    let diff = match which {
                        "parser" => first_diff(cli.0.as_deref().unwrap_or(b""), o.0.as_deref().unwrap_or(b"")),
                        _ => first_diff(cli.1.as_deref().unwrap_or(b""), o.1.as_deref().unwrap_or(b"")),
                    };
                    rep.violation("C17", &sig("history"), &format!("rcomp {} wrote a different {} file over the output of `rcomp {}` than into a fresh directory ({})", flags.argv().join(" "), which, alt.argv().join(" "), diff), case(json!({"previous_argv": alt.argv()})));
                    break;
                }
            }
        }
        if prepared > 0 {
            rep.count("histories_with_existing_files", 1);
        }
    }
    // (c) the library API with the equivalent settings
    let d = fresh(base, "api", text);
    match run_api(&d, flags) {
        Err(e) => rep.violation("C17", &sig("api-panic"), &e, case(json!(null))),
        Ok(_) => {
            let api = outputs(&d);
            if api.0 != cli.0 || api.1 != cli.1 {
                let which = if api.0 != cli.0 { "parser" } else { "actions" };
                let diff = match which {
                    "parser" => match (&cli.0, &api.0) {
                        (Some(a), Some(b)) => first_diff(a, b),
                        (a, b) => format!("written by CLI: {}, by API: {}", a.is_some(), b.is_some()),
                    },
                    _ => match (&cli.1, &api.1) {
                        (Some(a), Some(b)) => first_diff(a, b),
                        (a, b) => format!("written by CLI: {}, by API: {}", a.is_some(), b.is_some()),
                    },
                };
                rep.violation("C17", &sig("cli-vs-api"), &format!("rcomp {} and the equivalent library settings wrote different {} files ({})", flags.argv().join(" "), which, diff), case(json!(null)));
            }
        }
    }
}

/// (b2) see the comment inside.
pub fn process_state_jobs(rcomp: &str, base: &Path, rng: &mut Rng, rep: &mut Rep) {
    // (b2) one process, several *settings*: what a build script does. Every (grammar, option vector) must come out as in
    // a fresh rcomp process, whatever was compiled in this process before - in particular grammars whose fate depends
    // on a setting (a look-ahead / back-reference regex is valid under fancy_regex only).
    {
        let engine_texts = [
            "S: A B;\nterminals\nA: /a(?=b)/;\nB: /b+/;\n".to_string(),
            "S: A+;\nterminals\nA: /(x|y)\\1/;\n".to_string(),
            "S: A B;\nterminals\nA: /a+/;\nB: /b+/;\n".to_string(),
        ];
        let vectors = [
            Flags { fancy: true, ..Flags::none() },
            Flags::none(),
            Flags { fancy: true, glr: true, ..Flags::none() },
            Flags { prefer_shifts: true, builder: Some(1), ..Flags::none() },
        ];
        // reference: fresh processes
        let mut reference = vec![];
        for (ti, t) in engine_texts.iter().enumerate() {
            for (vi, v) in vectors.iter().enumerate() {
                let d = fresh(base, &format!("engref{}_{}", ti, vi), t);
                let _ = run_cli(rcomp, &d, v);
                reference.push(outputs(&d));
            }
        }
        // the same jobs in this process, in two orders
        for order in 0..2 {
            let mut jobs: Vec<(usize, usize)> = (0..engine_texts.len()).flat_map(|ti| (0..vectors.len()).map(move |vi| (ti, vi))).collect();
            if order == 1 {
                jobs.reverse();
            } else {
                rng.shuffle(&mut jobs);
            }
            for (ti, vi) in jobs {
                let d = fresh(base, &format!("engapi{}_{}_{}", order, ti, vi), &engine_texts[ti]);
                let _ = run_api(&d, &vectors[vi]);
                rep.count("in_process_jobs_with_varying_settings", 1);
                let o = outputs(&d);
                let r = &reference[ti * vectors.len() + vi];
                if &o != r {
                    let what = match (&r.0, &o.0) {
                        (None, Some(_)) => "a fresh rcomp process refuses the grammar, the library call in a process that had compiled other jobs wrote a parser".to_string(),
                        (Some(_), None) => "a fresh rcomp process writes a parser, the library call in a process that had compiled other jobs refused the grammar".to_string(),
                        _ => "the files differ".to_string(),
                    };
                    rep.violation("C17", &format!("process-state:{}:{}", ti, vi), &format!("`rcomp {}`: {}", vectors[vi].argv().join(" "), what), json!({"kind": "process-state", "grammar": engine_texts[ti], "argv": vectors[vi].argv(), "order": order}));
                }
            }
        }
    }
}

pub fn main(a: &Args) {
    let mut rep = Rep::new(a.out.as_deref());
    let mut rng = a.rng(17);
    let rcomp = std::env::var("VH_RCOMP").expect("VH_RCOMP");
    let base = PathBuf::from(std::env::var("VH_SCRATCH").unwrap_or("/verif/target/scratch".into())).join(format!("w{}_c17", std::process::id()));
    let _ = std::fs::remove_dir_all(&base);
    std::fs::create_dir_all(&base).unwrap();
    if let Some(path) = &a.replay {
        let v: Value = serde_json::from_str(&std::fs::read_to_string(path).expect("read replay")).expect("json");
        let case = &v["case"];
        if case["kind"].as_str() == Some("process-state") {
            let mut rng = a.rng(17);
            process_state_jobs(&rcomp, &base, &mut rng, &mut rep);
            let _ = std::fs::remove_dir_all(&base);
            rep.finish();
            return;
        }
        let flags = flags_from_argv(case["argv"].as_array().unwrap().iter().map(|x| x.as_str().unwrap().to_string()).collect());
        judge(case["grammar"].as_str().unwrap(), "replay", &flags, 24, &rcomp, &base, &mut rep);
        let _ = std::fs::remove_dir_all(&base);
        rep.finish();
        return;
    }
    let k = if a.thorough { 24 } else { 8 };
    let n = a.n.unwrap_or(6);
    let repo: Vec<(String, String)> = repo_grammars();
    // every single flag on a handful of repository grammars (shard-partitioned)
    let singles = Flags::singles();
    let picks: Vec<&(String, String)> = repo.iter().filter(|(p, _)| p.contains("calculator") || p.contains("json") || p.contains("rule_patterns") || p.contains("glr/forest")).take(6).collect();
    for (i, f) in singles.iter().enumerate() {
        if i as u64 % a.nshards != a.shard {
            continue;
        }
        for (p, t) in &picks {
            judge(t, p, f, 2, &rcomp, &base, &mut rep);
        }
    }
    let mut texts_for_order: Vec<String> = vec![];
    for i in 0..n {
        if rep.elapsed() > a.max_s {
            break;
        }
        let (origin, text) = match i % 3 {
            0 => {
                if i % 2 == 0 {
                    ("dedupe-stress".to_string(), dedupe_stress(&mut rng))
                } else {
                    ("duplicate-literal".to_string(), dup_literal(&mut rng))
                }
            }
            1 => ("ast".to_string(), gen_ast(&mut rng).text()),
            _ => {
                let (p, t) = &repo[rng.below(repo.len())];
                (p.clone(), t.clone())
            }
        };
        let flags = if i % 3 == 0 { Flags { prefer_shifts: true, ..Flags::none() } } else { Flags::random(&mut rng) };
        judge(&text, &origin, &flags, if i % 3 == 0 { k } else { 3 }, &rcomp, &base, &mut rep);
        texts_for_order.push(text);
    }
    // (b) one process, two processing orders
    let flags = Flags { prefer_shifts: true, ..Flags::none() };
    let mut fwd = vec![];
    for (i, t) in texts_for_order.iter().enumerate() {
        let d = fresh(&base, &format!("fwd{}", i), t);
        let _ = run_api(&d, &flags);
        fwd.push(outputs(&d));
    }
    for (i, t) in texts_for_order.iter().enumerate().rev() {
        let d = fresh(&base, &format!("rev{}", i), t);
        let _ = run_api(&d, &flags);
        rep.count("order_pairs", 1);
        if outputs(&d) != fwd[i] {
            rep.violation("C17", &format!("order:{}", fnv(t)), "the same grammar compiled twice in one process (different processing order) gave different files", json!({"grammar": t, "argv": flags.argv()}));
        }
    }
    process_state_jobs(&rcomp, &base, &mut rng, &mut rep);
    // (d) a directory processed by one rcomp call (traversal order is the file system's) vs each grammar alone.
    // Only grammars that rcomp accepts on their own are put into the directory (process_dir stops at the first
    // rejected grammar, and rcomp exits 0 either way).
    {
        let names = ["zeta", "alpha", "mid", "beta2", "x1", "k9"];
        let dir = base.join("dirmode");
        let _ = std::fs::remove_dir_all(&dir);
        std::fs::create_dir_all(dir.join("sub")).unwrap();
        let mut picked: Vec<(String, &String, PathBuf)> = vec![];
        for t in texts_for_order.iter() {
            if picked.len() >= names.len() {
                break;
            }
            let n = names[picked.len()].to_string();
            let single = base.join(format!("single_{}", n));
            let _ = std::fs::remove_dir_all(&single);
            std::fs::create_dir_all(&single).unwrap();
            std::fs::write(single.join(format!("{}.rustemo", n)), t).unwrap();
            let _ = Command::new(&rcomp).args(flags.argv()).arg(single.join(format!("{}.rustemo", n))).env_remove("OUT_DIR").env_remove("CARGO_MANIFEST_DIR").output();
            if single.join(format!("{}.rs", n)).exists() {
                picked.push((n, t, single));
            }
        }
        if picked.len() >= 2 {
            for (i, (n, t, _)) in picked.iter().enumerate() {
                let d = if i % 2 == 0 { dir.clone() } else { dir.join("sub") };
                std::fs::write(d.join(format!("{}.rustemo", n)), t).unwrap();
            }
            let _ = Command::new(&rcomp).args(flags.argv()).arg(&dir).env_remove("OUT_DIR").env_remove("CARGO_MANIFEST_DIR").output();
            for (i, (n, t, single)) in picked.iter().enumerate() {
                let d = if i % 2 == 0 { dir.clone() } else { dir.join("sub") };
                rep.count("dir_mode_pairs", 1);
                for sfx in [".rs", "_actions.rs"] {
                    let a = std::fs::read(d.join(format!("{}{}", n, sfx))).ok();
                    let b = std::fs::read(single.join(format!("{}{}", n, sfx))).ok();
                    if a != b {
                        rep.violation("C17", &format!("dirmode:{}", fnv(t)), &format!("rcomp over a directory wrote a different {}{} than rcomp over the grammar alone (written: {} vs {})", n, sfx, a.is_some(), b.is_some()), json!({"grammar": t, "argv": flags.argv()}));
                    }
                }
            }
            // the same directory with one entry excluded (--exclude matches parts of the path): every other grammar
            // exactly as alone, whatever the order in which the file system lists the entries
            for (xi, (xn, _, _)) in picked.iter().enumerate() {
                let dirx = base.join(format!("dirmode_x{}", xi));
                let _ = std::fs::remove_dir_all(&dirx);
                std::fs::create_dir_all(dirx.join("sub")).unwrap();
                for (i, (n, t, _)) in picked.iter().enumerate() {
                    let d = if i % 2 == 0 { dirx.clone() } else { dirx.join("sub") };
                    std::fs::write(d.join(format!("{}.rustemo", n)), t).unwrap();
                }
                let _ = Command::new(&rcomp).args(flags.argv()).arg("--exclude").arg(format!("{}.rustemo", xn)).arg(&dirx).env_remove("OUT_DIR").env_remove("CARGO_MANIFEST_DIR").output();
                for (i, (n, t, single)) in picked.iter().enumerate() {
                    let d = if i % 2 == 0 { dirx.clone() } else { dirx.join("sub") };
                    rep.count("dir_mode_exclude_pairs", 1);
                    let a = std::fs::read(d.join(format!("{}.rs", n))).ok();
                    let b = if i == xi { None } else { std::fs::read(single.join(format!("{}.rs", n))).ok() };
                    if a != b {
                        rep.violation("C17", &format!("dirmode-exclude:{}:{}", fnv(t), xi), &format!("rcomp --exclude {}.rustemo over a directory: parser of {} written: {}, expected: {}{}", xn, n, a.is_some(), b.is_some(), if a.is_some() && b.is_some() { " (bytes differ from the grammar alone)" } else { "" }), json!({"grammar": t, "argv": flags.argv(), "excluded": xn}));
                    }
                }
            }
        }
    }
    let _ = std::fs::remove_dir_all(&base);
    rep.sample(json!({"single_flag_vectors": singles.len(), "fresh_processes_per_dedupe_grammar": k}));
    rep.finish();
}

fn flags_from_argv(argv: Vec<String>) -> Flags {
    let mut f = Flags::none();
    let mut i = 0;
    while i < argv.len() {
        let a = argv[i].as_str();
        let next = argv.get(i + 1).cloned().unwrap_or_default();
        match a {
            "--parser-algo" => {
                f.glr = next == "glr";
                i += 1;
            }
            "--table-type" => {
                f.table = Some(["lalr", "lalr-pager", "lalr-rn"].iter().position(|x| *x == next).unwrap() as u8);
                i += 1;
            }
            "--prefer-shifts" => f.prefer_shifts = true,
            "--no-shifts-over-empty" => f.no_shifts_over_empty = true,
            "--generator-table-type" => {
                f.arrays = Some(next == "arrays");
                i += 1;
            }
            "--builder-type" => {
                f.builder = Some(["default", "generic", "custom"].iter().position(|x| *x == next).unwrap() as u8);
                i += 1;
            }
            "--builder-loc-info" => f.loc_info = true,
            "--fancy-regex" => f.fancy = true,
            "--partial-parse" => f.partial = true,
            "--no-skip-ws" => f.no_skip_ws = true,
            "--lexer-type" => {
                f.custom_lexer = next == "custom";
                i += 1;
            }
            "--noactions" => f.noactions = true,
            _ => {
                if let Some(v) = a.strip_prefix("--lexical-disamb-most-specific=") {
                    f.ms = Some(v == "true");
                } else if let Some(v) = a.strip_prefix("--lexical-disamb-longest-match=") {
                    f.lm = Some(v == "true");
                } else if let Some(v) = a.strip_prefix("--lexical-disamb-grammar-order=") {
                    f.go = Some(v == "true");
                }
            }
        }
        i += 1;
    }
    f
}
