//! Running the real compiler pipeline in-process and collecting the hook dump.
use rustemo_compiler::verif::{take_dump, Dump};
use rustemo_compiler::{BuilderType, GeneratorTableType, LexerType, ParserAlgo, Settings, TableType};
use serde_json::{json, Value};
use std::path::{Path, PathBuf};

#[derive(Clone, Debug, PartialEq)]
pub struct SetSpec {
    pub glr: bool,
    /// None = leave what parser_algo selects
    pub table: Option<u8>, // 0 LALR, 1 PAGER, 2 RN
    pub ps: Option<bool>,
    pub pse: Option<bool>,
    pub ms: bool,
    pub lm: bool,
    pub go: Option<bool>,
    pub partial: bool,
    pub skip_ws: bool,
    pub builder: u8,   // 0 default 1 generic 2 custom
    pub gen_table: u8, // 0 functions (default) 1 arrays
    pub custom_lexer: bool,
    pub loc_info: bool,
    pub fancy: bool,
    pub force: Option<bool>,
    /// actions(false): no actions file is generated
    pub noactions: bool,
    /// LR only: parser_algo(LR) is called explicitly and *after* the other setters, as rcomp's main() does
    pub algo_last: bool,
}

impl Default for SetSpec {
    fn default() -> Self {
        SetSpec {
            glr: false,
            table: None,
            ps: None,
            pse: None,
            ms: true,
            lm: true,
            go: None,
            partial: false,
            skip_ws: true,
            builder: 1,
            gen_table: 0,
            custom_lexer: false,
            loc_info: false,
            fancy: false,
            force: None,
            noactions: false,
            algo_last: false,
        }
    }
}

pub fn table_type(t: u8) -> TableType {
    match t {
        0 => TableType::LALR,
        1 => TableType::LALR_PAGER,
        _ => TableType::LALR_RN,
    }
}
pub fn table_name(t: u8) -> &'static str {
    match t {
        0 => "LALR",
        1 => "LALR_PAGER",
        _ => "LALR_RN",
    }
}

impl SetSpec {
    pub fn lr(table: u8) -> SetSpec {
        SetSpec { table: Some(table), ..Default::default() }
    }
    pub fn glr() -> SetSpec {
        SetSpec { glr: true, ..Default::default() }
    }
    /// GLR algorithm (nothing resolved by prefer-shift defaults) with the given table type.
    pub fn raw(table: u8) -> SetSpec {
        SetSpec { glr: true, table: Some(table), ..Default::default() }
    }
    /// Mirrors the order of calls in rcomp's main(): table_type before parser_algo is
    /// *not* used here; parser_algo first, then explicit overrides.
    pub fn settings(&self, dir: &Path) -> Settings {
        let mut s = Settings::new().out_dir_root(dir.to_path_buf()).out_dir_actions_root(dir.to_path_buf()).root_dir(dir.to_path_buf());
        if self.glr {
            s = s.parser_algo(ParserAlgo::GLR);
        }
        if let Some(t) = self.table {
            s = s.table_type(table_type(t));
        }
        if let Some(p) = self.ps {
            s = s.prefer_shifts(p);
        }
        if let Some(p) = self.pse {
            s = s.prefer_shifts_over_empty(p);
        }
        s = s.lexical_disamb_most_specific(self.ms).lexical_disamb_longest_match(self.lm).partial_parse(self.partial).skip_ws(self.skip_ws);
        if let Some(g) = self.go {
            if self.glr || g {
                s = s.lexical_disamb_grammar_order(g);
            }
        }
        s = s.builder_type(match self.builder {
            0 => BuilderType::Default,
            1 => BuilderType::Generic,
            _ => BuilderType::Custom,
        });
        s = s.generator_table_type(if self.gen_table == 1 { GeneratorTableType::Arrays } else { GeneratorTableType::Functions });
        if self.custom_lexer {
            s = s.lexer_type(LexerType::Custom);
        }
        s = s.builder_loc_info(self.loc_info).fancy_regex(self.fancy);
        if let Some(f) = self.force {
            s = s.force(f);
        }
        if self.noactions {
            s = s.actions(false);
        }
        if self.algo_last && !self.glr {
            s = s.parser_algo(ParserAlgo::LR);
        }
        s
    }
    pub fn grammar_order(&self) -> bool {
        self.go.unwrap_or(!self.glr)
    }
    pub fn dyn_cfg(&self) -> crate::dynp::Cfg {
        crate::dynp::Cfg { partial: self.partial, skip_ws: self.skip_ws, longest_match: self.lm, grammar_order: self.grammar_order(), fancy: self.fancy }
    }
    pub fn to_json(&self) -> Value {
        let v = json!({"glr": self.glr, "table": self.table, "ps": self.ps, "pse": self.pse, "ms": self.ms, "lm": self.lm, "go": self.go,
               "partial": self.partial, "skip_ws": self.skip_ws, "builder": self.builder, "gen_table": self.gen_table,
               "custom_lexer": self.custom_lexer, "loc_info": self.loc_info, "fancy": self.fancy, "force": self.force});
        // later additions appear only when set, so that the signatures of recorded cases (hashes of this JSON) stay valid
        let mut v = v;
        if self.noactions {
            v["noactions"] = json!(true);
        }
        if self.algo_last {
            v["algo_last"] = json!(true);
        }
        v
    }
    pub fn from_json(v: &Value) -> SetSpec {
        let b = |k: &str, d: bool| v.get(k).and_then(|x| x.as_bool()).unwrap_or(d);
        let ob = |k: &str| v.get(k).and_then(|x| x.as_bool());
        let u = |k: &str, d: u8| v.get(k).and_then(|x| x.as_u64()).map(|x| x as u8).unwrap_or(d);
        SetSpec {
            glr: b("glr", false),
            table: v.get("table").and_then(|x| x.as_u64()).map(|x| x as u8),
            ps: ob("ps"),
            pse: ob("pse"),
            ms: b("ms", true),
            lm: b("lm", true),
            go: ob("go"),
            partial: b("partial", false),
            skip_ws: b("skip_ws", true),
            builder: u("builder", 1),
            gen_table: u("gen_table", 0),
            custom_lexer: b("custom_lexer", false),
            loc_info: b("loc_info", false),
            fancy: b("fancy", false),
            force: ob("force"),
            noactions: b("noactions", false),
            algo_last: b("algo_last", false),
        }
    }
}

pub enum Outcome {
    Ok,
    Err(String),
    Panic(String),
}
impl Outcome {
    pub fn is_ok(&self) -> bool {
        matches!(self, Outcome::Ok)
    }
    pub fn is_panic(&self) -> bool {
        matches!(self, Outcome::Panic(_))
    }
    pub fn show(&self) -> String {
        match self {
            Outcome::Ok => "Ok".into(),
            Outcome::Err(e) => format!("Err({})", e.chars().take(300).collect::<String>()),
            Outcome::Panic(e) => format!("PANIC({})", e.chars().take(300).collect::<String>()),
        }
    }
}

pub struct Compiled {
    pub outcome: Outcome,
    pub dump: Option<Dump>,
}

pub struct Workdir {
    pub dir: PathBuf,
}

impl Workdir {
    pub fn new(tag: &str) -> Workdir {
        let base = std::env::var("VH_SCRATCH").unwrap_or_else(|_| "/verif/target/scratch".into());
        let dir = PathBuf::from(base).join(format!("w{}_{}", std::process::id(), tag));
        let _ = std::fs::remove_dir_all(&dir);
        std::fs::create_dir_all(&dir).expect("create scratch dir");
        Workdir { dir }
    }
    pub fn compile(&self, text: &str, spec: &SetSpec) -> Compiled {
        self.compile_named("g", text, spec)
    }
    pub fn compile_named(&self, name: &str, text: &str, spec: &SetSpec) -> Compiled {
        let gpath = self.dir.join(format!("{}.rustemo", name));
        std::fs::write(&gpath, text).expect("write grammar");
        let s = spec.settings(&self.dir);
        let _ = take_dump();
        let r = crate::dynp::guarded(|| s.process_grammar(&gpath));
        let dump = take_dump();
        let outcome = match r {
            Ok(Ok(())) => Outcome::Ok,
            Ok(Err(e)) => Outcome::Err(e.to_string()),
            Err(Some(m)) => Outcome::Panic(m),
            Err(None) => Outcome::Panic("step limit inside compiler?".into()),
        };
        Compiled { outcome, dump }
    }
}

impl Drop for Workdir {
    fn drop(&mut self) {
        let _ = std::fs::remove_dir_all(&self.dir);
    }
}
