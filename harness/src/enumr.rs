//! Reference model: memoised derivation counter / tree enumerator over a token
//! lattice (a plain token string is the special case of a linear lattice).
//! Shares no code with rustemo. Terminates on every acyclic grammar thanks to
//! min-length pruning (every token edge advances at least one node).
use crate::ag::{Sym, AG};
use std::collections::HashMap;

/// One token edge of the lattice.
#[derive(Clone, Copy, Debug, PartialEq, Eq)]
pub struct Edge {
    pub term: usize,
    pub to: usize,
    pub start: usize, // byte offsets of the token text
    pub end: usize,
}

#[derive(Clone, Debug)]
pub struct Lattice {
    /// edges[node] = token edges leaving node; nodes are topologically ordered (to > from)
    pub edges: Vec<Vec<Edge>>,
    pub start: usize,
    pub end: usize,
}

impl Lattice {
    pub fn linear(toks: &[(usize, usize, usize)]) -> Lattice {
        let mut edges: Vec<Vec<Edge>> = toks.iter().enumerate().map(|(i, t)| vec![Edge { term: t.0, to: i + 1, start: t.1, end: t.2 }]).collect();
        edges.push(vec![]);
        Lattice { edges, start: 0, end: toks.len() }
    }
}

#[derive(Clone, Debug, PartialEq, Eq, Hash, PartialOrd, Ord)]
pub enum T {
    Leaf { term: usize, start: usize, end: usize },
    Node { rule: usize, alt: usize, children: Vec<T> },
}

impl T {
    pub fn is_empty(&self) -> bool {
        match self {
            T::Leaf { .. } => false,
            T::Node { children, .. } => children.iter().all(|c| c.is_empty()),
        }
    }
    /// strip trailing children deriving the empty string (right-nulled elision)
    pub fn norm(&self) -> T {
        match self {
            T::Leaf { .. } => self.clone(),
            T::Node { rule, alt, children } => {
                let mut ch: Vec<T> = children.iter().map(|c| c.norm()).collect();
                while let Some(l) = ch.last() {
                    if l.is_empty() {
                        ch.pop();
                    } else {
                        break;
                    }
                }
                T::Node { rule: *rule, alt: *alt, children: ch }
            }
        }
    }
    pub fn show(&self) -> String {
        match self {
            T::Leaf { term, start, end } => format!("t{}[{}-{}]", term, start, end),
            T::Node { rule, alt, children } => {
                format!("(r{}a{} {})", rule, alt, children.iter().map(|c| c.show()).collect::<Vec<_>>().join(" "))
            }
        }
    }
    pub fn leaves(&self, out: &mut Vec<(usize, usize, usize)>) {
        match self {
            T::Leaf { term, start, end } => out.push((*term, *start, *end)),
            T::Node { children, .. } => children.iter().for_each(|c| c.leaves(out)),
        }
    }
    pub fn count_nodes(&self) -> usize {
        match self {
            T::Leaf { .. } => 1,
            T::Node { children, .. } => 1 + children.iter().map(|c| c.count_nodes()).sum::<usize>(),
        }
    }
}

pub const CAP: u64 = 1 << 40;

pub struct Enum<'a> {
    pub g: &'a AG,
    pub lat: &'a Lattice,
    cnt: HashMap<(usize, usize, usize), u64>,
    cnt_seq: HashMap<(usize, usize, usize, usize, usize), u64>,
    memo: HashMap<(usize, usize, usize), Vec<T>>,
    minlen: Vec<usize>,
}

impl<'a> Enum<'a> {
    pub fn new(g: &'a AG, lat: &'a Lattice) -> Self {
        Enum { g, lat, cnt: HashMap::new(), cnt_seq: HashMap::new(), memo: HashMap::new(), minlen: g.minlen() }
    }

    fn seqmin(&self, a: &[Sym]) -> usize {
        a.iter()
            .map(|s| match s {
                Sym::T(_) => 1,
                Sym::N(k) => self.minlen[*k],
            })
            .fold(0usize, |x, y| x.saturating_add(y))
    }

    pub fn count_all(&mut self) -> u64 {
        self.count(0, self.lat.start, self.lat.end)
    }
    pub fn trees_all(&mut self) -> Vec<T> {
        self.trees(0, self.lat.start, self.lat.end)
    }

    /// number of derivation trees of rule r from node i to node j
    pub fn count(&mut self, r: usize, i: usize, j: usize) -> u64 {
        if j < i || j - i < self.minlen[r] {
            return 0;
        }
        if let Some(c) = self.cnt.get(&(r, i, j)) {
            return *c;
        }
        let mut total = 0u64;
        for ai in 0..self.g.rules[r].alts.len() {
            total = total.saturating_add(self.count_seq(r, ai, 0, i, j)).min(CAP);
        }
        self.cnt.insert((r, i, j), total);
        total
    }

    /// derivations of the suffix (from position p) of alternative (r, ai) between nodes i and j
    fn count_seq(&mut self, r: usize, ai: usize, p: usize, i: usize, j: usize) -> u64 {
        let g = self.g;
        let a = &g.rules[r].alts[ai].syms[p..];
        if a.is_empty() {
            return (i == j) as u64;
        }
        if j < i || j - i < self.seqmin(a) {
            return 0;
        }
        if let Some(c) = self.cnt_seq.get(&(r, ai, p, i, j)) {
            return *c;
        }
        let res = match a[0] {
            Sym::T(t) => {
                let mut total = 0u64;
                let edges: Vec<Edge> = self.lat.edges[i].iter().filter(|e| e.term == t && e.to <= j).cloned().collect();
                for e in edges {
                    total = total.saturating_add(self.count_seq(r, ai, p + 1, e.to, j)).min(CAP);
                }
                total
            }
            Sym::N(n) => {
                let mut total = 0u64;
                let restmin = self.seqmin(&a[1..]);
                for k in i..=j {
                    if k - i < self.minlen[n] || j - k < restmin {
                        continue;
                    }
                    let rest = self.count_seq(r, ai, p + 1, k, j);
                    if rest > 0 {
                        let c = self.count(n, i, k);
                        total = total.saturating_add(c.saturating_mul(rest)).min(CAP);
                    }
                }
                total
            }
        };
        self.cnt_seq.insert((r, ai, p, i, j), res);
        res
    }

    pub fn trees(&mut self, r: usize, i: usize, j: usize) -> Vec<T> {
        if let Some(c) = self.memo.get(&(r, i, j)) {
            return c.clone();
        }
        let mut out = vec![];
        for ai in 0..self.g.rules[r].alts.len() {
            if self.count_seq(r, ai, 0, i, j) == 0 {
                continue;
            }
            for ch in self.seq(r, ai, 0, i, j) {
                out.push(T::Node { rule: r, alt: ai, children: ch });
            }
        }
        self.memo.insert((r, i, j), out.clone());
        out
    }

    fn seq(&mut self, r: usize, ai: usize, p: usize, i: usize, j: usize) -> Vec<Vec<T>> {
        let g = self.g;
        let a = &g.rules[r].alts[ai].syms[p..];
        if a.is_empty() {
            return if i == j { vec![vec![]] } else { vec![] };
        }
        if self.count_seq(r, ai, p, i, j) == 0 {
            return vec![];
        }
        let mut out = vec![];
        match a[0] {
            Sym::T(t) => {
                let edges: Vec<Edge> = self.lat.edges[i].iter().filter(|e| e.term == t && e.to <= j).cloned().collect();
                for e in edges {
                    for mut rest in self.seq(r, ai, p + 1, e.to, j) {
                        let mut v = vec![T::Leaf { term: t, start: e.start, end: e.end }];
                        v.append(&mut rest);
                        out.push(v);
                    }
                }
            }
            Sym::N(n) => {
                for k in i..=j {
                    if self.count_seq(r, ai, p + 1, k, j) == 0 || self.count(n, i, k) == 0 {
                        continue;
                    }
                    let rests = self.seq(r, ai, p + 1, k, j);
                    let firsts = self.trees(n, i, k);
                    for f in &firsts {
                        for rr in &rests {
                            let mut v = vec![f.clone()];
                            v.extend(rr.iter().cloned());
                            out.push(v);
                        }
                    }
                }
            }
        }
        out
    }
}

/// Earley recogniser over a token string: membership and viable prefix.
/// Returns (accepted, first_bad) with first_bad = index of the first token after
/// which no sentence can continue (None when every prefix is viable). The
/// grammar must be reduced (all rules productive) for the viable-prefix reading
/// to be exact.
pub fn earley(g: &AG, toks: &[usize]) -> (bool, Option<usize>) {
    use std::collections::BTreeSet;
    let nullable = g.nullable();
    type It = (usize, usize, usize, usize); // rule, alt, dot, origin
    let n = toks.len();
    let mut sets: Vec<BTreeSet<It>> = vec![BTreeSet::new(); n + 1];
    for a in 0..g.rules[0].alts.len() {
        sets[0].insert((0, a, 0, 0));
    }
    for i in 0..=n {
        let mut work: Vec<It> = sets[i].iter().cloned().collect();
        while let Some((r, a, d, o)) = work.pop() {
            let alt = &g.rules[r].alts[a].syms;
            if d < alt.len() {
                if let Sym::N(m) = alt[d] {
                    for a2 in 0..g.rules[m].alts.len() {
                        let it = (m, a2, 0, i);
                        if sets[i].insert(it) {
                            work.push(it);
                        }
                    }
                    if nullable[m] {
                        let it = (r, a, d + 1, o);
                        if sets[i].insert(it) {
                            work.push(it);
                        }
                    }
                }
            } else {
                let parents: Vec<It> = sets[o].iter().cloned().collect();
                for (r2, a2, d2, o2) in parents {
                    let alt2 = &g.rules[r2].alts[a2].syms;
                    if d2 < alt2.len() && alt2[d2] == Sym::N(r) {
                        let it = (r2, a2, d2 + 1, o2);
                        if sets[i].insert(it) {
                            work.push(it);
                        }
                    }
                }
            }
        }
        if i < n {
            let cur: Vec<It> = sets[i].iter().cloned().collect();
            for (r, a, d, o) in cur {
                let alt = &g.rules[r].alts[a].syms;
                if d < alt.len() && alt[d] == Sym::T(toks[i]) {
                    sets[i + 1].insert((r, a, d + 1, o));
                }
            }
            if sets[i + 1].is_empty() {
                return (false, Some(i));
            }
        }
    }
    let acc = sets[n].iter().any(|(r, a, d, o)| *r == 0 && *o == 0 && *d == g.rules[0].alts[*a].syms.len());
    (acc, None)
}
