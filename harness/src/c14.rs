//! C14: the generic LR tree is lossless (layout + token texts rebuild the
//! input), stored layout belongs to the layout language, and inserting layout
//! never changes the tree.
use crate::ag::*;
use crate::c_diff::conflict_free;
use crate::comp::*;
use crate::dynp::{self, guarded, Dyn, LTree};
use crate::gens::*;
use crate::rep::{Args, Rep};
use crate::rng::Rng;
use rustemo::TreeNode;
use serde_json::{json, Value};

/// 0 = default whitespace skipping, 1 = Layout rule: whitespace, 2 = + line comments, 3 = + nested block comments
pub fn layout_rules(family: u8) -> (&'static str, &'static str) {
    match family {
        1 => ("Layout: LayoutItem*;\nLayoutItem: WS;\n", "WS: /\\s+/;\n"),
        2 => ("Layout: LayoutItem*;\nLayoutItem: WS | CommentLine;\n", "WS: /\\s+/;\nCommentLine: /\\/\\/.*/;\n"),
        3 => (
            "Layout: LayoutItem*;\nLayoutItem: WS | Comment;\nComment: '/*' Corncs '*/' | CommentLine;\nCorncs: Cornc*;\nCornc: Comment | NotComment | WS;\n",
            "WS: /\\s+/;\nOComment: '/*';\nCComment: '*/';\nCommentLine: /\\/\\/.*/;\nNotComment: /((\\*[^\\/])|[^\\s*\\/]|\\/[^\\*])+/;\n",
        ),
        // Layout rules with a direct EMPTY alternative / other recursion shapes (same languages as 2 and 1)
        4 => ("Layout: LayoutItem+ | EMPTY;\nLayoutItem: WS | CommentLine;\n", "WS: /\\s+/;\nCommentLine: /\\/\\/.*/;\n"),
        5 => ("Layout: WS Layout | EMPTY;\n", "WS: /\\s+/;\n"),
        6 => ("Layout: Layout LayoutItem | EMPTY;\nLayoutItem: WS | CommentLine;\n", "WS: /\\s+/;\nCommentLine: /\\/\\/.*/;\n"),
        // one item per layout parse: the parser has to chain several layout parses in front of one token
        7 => ("Layout: WS | CommentLine;\n", "WS: /\\s+/;\nCommentLine: /\\/\\/.*/;\n"),
        _ => ("", ""),
    }
}

/// family of generated layout strings / of the recogniser for a Layout-rule family
pub fn lang_of(family: u8) -> u8 {
    match family {
        4 | 6 | 7 => 2,
        5 => 1,
        f => f,
    }
}

pub const N_FAMILIES: u8 = 8;

pub fn grammar_text(g: &AG, family: u8) -> String {
    let mut t = g.text();
    let (rules, terms) = layout_rules(family);
    let pos = t.find("terminals\n").unwrap();
    t.insert_str(pos, rules);
    t.push_str(terms);
    t
}

fn gen_ws(rng: &mut Rng) -> String {
    let n = rng.range(1, 3);
    (0..n).map(|_| *rng.pick(&[" ", " ", "\t", "\n", "\r\n", "\u{a0}", "\u{2003}"])).collect()
}

fn gen_block(rng: &mut Rng, depth: usize) -> String {
    let mut s = String::from("/*");
    for _ in 0..rng.range(0, 4) {
        match rng.below(5) {
            0 if depth < 2 => s.push_str(&gen_block(rng, depth + 1)),
            1 => s.push_str(&gen_ws(rng)),
            2 => s.push_str("*x"),
            3 => s.push_str("é1"),
            _ => s.push_str(*rng.pick(&["xyz", "a b", "q", "9"])),
        }
    }
    s.push_str("*/");
    s
}

/// A layout string of the family (possibly empty when allow_empty).
pub fn gen_layout(rng: &mut Rng, family: u8, allow_empty: bool, at_end: bool) -> String {
    let family = lang_of(family);
    if allow_empty && rng.chance(0.25) {
        return String::new();
    }
    let mut s = String::new();
    let n = rng.range(1, 3);
    for i in 0..n {
        match family {
            0 | 1 => s.push_str(&gen_ws(rng)),
            2 => {
                if rng.chance(0.4) {
                    s.push_str("// c");
                    s.push_str(*rng.pick(&["omment", " a b", "", " é"]));
                    if !(at_end && i == n - 1 && rng.chance(0.5)) {
                        s.push('\n');
                    }
                } else {
                    s.push_str(&gen_ws(rng));
                }
            }
            _ => match rng.below(3) {
                0 => {
                    s.push_str("// x y");
                    if !(at_end && i == n - 1 && rng.chance(0.5)) {
                        s.push('\n');
                    }
                }
                1 => s.push_str(&gen_block(rng, 0)),
                _ => s.push_str(&gen_ws(rng)),
            },
        }
    }
    s
}

/// Own recogniser of the generated layout families (does the whole string belong to L(Layout)?).
pub fn is_layout(s: &str, family: u8) -> bool {
    let family = lang_of(family);
    fn block(b: &[char], mut i: usize) -> Option<usize> {
        // b[i..] starts with "/*"
        i += 2;
        loop {
            if i + 1 < b.len() && b[i] == '*' && b[i + 1] == '/' {
                return Some(i + 2);
            }
            if i + 1 < b.len() && b[i] == '/' && b[i + 1] == '*' {
                i = block(b, i)?;
                continue;
            }
            if i >= b.len() {
                return None;
            }
            i += 1;
        }
    }
    let b: Vec<char> = s.chars().collect();
    let mut i = 0;
    while i < b.len() {
        if b[i].is_whitespace() {
            i += 1;
        } else if family >= 2 && i + 1 < b.len() && b[i] == '/' && b[i + 1] == '/' {
            while i < b.len() && b[i] != '\n' {
                i += 1;
            }
        } else if family >= 3 && i + 1 < b.len() && b[i] == '/' && b[i + 1] == '*' {
            match block(&b, i) {
                Some(j) => i = j,
                None => return false,
            }
        } else {
            return false;
        }
    }
    true
}

fn walk<'a>(t: &'a LTree, out: &mut Vec<(Option<&'a str>, &'a str, usize, usize)>, shape: &mut String, errs: &mut Vec<String>) -> Option<Option<&'a str>> {
    match t {
        TreeNode::TermNode { token, layout } => {
            out.push((*layout, token.value, token.span.start.pos, token.span.end.pos));
            shape.push_str(&format!("t{} ", token.kind.0));
            Some(*layout)
        }
        TreeNode::NonTermNode { prod, children, layout, .. } => {
            shape.push_str(&format!("(p{} ", prod.prod));
            let mut first: Option<Option<&str>> = None;
            for c in children {
                let l = walk(c, out, shape, errs);
                if first.is_none() {
                    first = l;
                }
            }
            shape.push_str(") ");
            first
        }
    }
}

pub struct Side {
    pub text: String,
    pub family: u8,
    pub dy: Dyn,
}

pub fn judge(p: &Side, g: &AG, w: &[usize], input: &str, plain_shape: &Option<String>, rep: &mut Rep, case_extra: Value) -> Option<String> {
    let case = |extra: Value| json!({"grammar": p.text, "ag": g.to_json(), "family": p.family, "input": input, "tokens": w, "extra": extra, "info": case_extra});
    let sig = |k: &str| format!("{}:{}:{}", k, fnv(&p.text), fnv(input));
    crate::rep::watchdog::set(|| case(json!(null)).to_string());
    rep.count("evaluations", 1);
    dynp::set_step_limit(20_000 * (input.len() as u64 + 1));
    let r = guarded(|| {
        p.dy.lr_parse(input).map(|t| {
            let mut leaves = vec![];
            let mut shape = String::new();
            let mut errs = vec![];
            walk(&t, &mut leaves, &mut shape, &mut errs);
            let owned: Vec<(Option<String>, String, usize, usize)> = leaves.iter().map(|(l, v, s, e)| (l.map(|x| x.to_string()), v.to_string(), *s, *e)).collect();
            (owned, shape, errs)
        })
    });
    match r {
        Err(None) => {
            rep.count("step_budget_exceeded_not_judged", 1);
            None
        }
        Err(Some(m)) => {
            rep.violation("C14", &sig("panic"), &format!("parser panicked: {}", m), case(json!(null)));
            None
        }
        Ok(Err(e)) => {
            // the sentence with layout inserted must still be a sentence
            if plain_shape.is_some() {
                rep.violation("C14", &sig("rejected"), &format!("inserting layout turned a sentence into an error: {}", e.to_pos_str().replace('\n', " ")), case(json!(null)));
            }
            None
        }
        Ok(Ok((leaves, shape, mut errs))) => {
            rep.count("trees", 1);
            // reconstruction
            let mut rebuilt = String::new();
            for (l, v, s, _e) in &leaves {
                if let Some(l) = l {
                    rebuilt.push_str(l);
                    if !is_layout(l, p.family) {
                        errs.push(format!("stored layout {:?} is not a sentence of the layout language", l));
                    }
                    if l.is_empty() {
                        errs.push("empty layout stored as Some(\"\")".into());
                    }
                }
                if rebuilt.len() != *s {
                    errs.push(format!("layout + texts before token {:?} have {} bytes but the token starts at {}", v, rebuilt.len(), s));
                    break;
                }
                rebuilt.push_str(v);
            }
            if errs.is_empty() {
                if !input.starts_with(&rebuilt) {
                    errs.push(format!("concatenation {:?} is not a prefix of the input", rebuilt));
                } else if !is_layout(&input[rebuilt.len()..], p.family) {
                    errs.push(format!("what follows the last token, {:?}, is not layout", &input[rebuilt.len()..]));
                }
            }
            if leaves.len() != w.len() {
                errs.push(format!("{} leaves for {} tokens", leaves.len(), w.len()));
            }
            if !errs.is_empty() {
                rep.violation("C14", &sig("lossless"), &format!("generic tree does not reproduce the input: {}", errs.join("; ")), case(json!(null)));
            }
            if let Some(ps) = plain_shape {
                if ps != &shape {
                    rep.violation("C14", &sig("tree-changed"), "inserting layout between the tokens changed the tree", case(json!({"plain": ps, "with_layout": shape})));
                } else if leaves.iter().filter(|l| l.0.is_some()).count() >= 2 {
                    rep.distinct("nontrivial", fnv(&format!("{}|{}", p.text, input)));
                }
            }
            Some(shape)
        }
    }
}

/// Round trip only (no reference tokenisation): terminals with overlapping recognisers, context-dependent lexing,
/// conflicts settled by prefer-shift - whatever tree the LR parser builds, layout + token texts must rebuild the input
/// and every stored layout must be whitespace.
pub fn judge_roundtrip(text: &str, agj: &Value, dy: &Dyn, input: &str, rep: &mut Rep) {
    let case = |extra: Value| json!({"grammar": text, "ag": agj, "lexical": true, "input": input, "extra": extra});
    let sig = |k: &str| format!("lex-{}:{}:{}", k, fnv(text), fnv(input));
    crate::rep::watchdog::touch();
    rep.count("evaluations", 1);
    rep.count("lexical_family_inputs", 1);
    dynp::set_step_limit(20_000 * (input.len() as u64 + 1));
    let r = guarded(|| {
        dy.lr_parse(input).map(|t| {
            let mut leaves = vec![];
            let mut shape = String::new();
            let mut errs = vec![];
            walk(&t, &mut leaves, &mut shape, &mut errs);
            leaves.iter().map(|(l, v, s, e)| (l.map(|x| x.to_string()), v.to_string(), *s, *e)).collect::<Vec<(Option<String>, String, usize, usize)>>()
        })
    });
    let leaves = match r {
        Err(None) => {
            rep.count("step_budget_exceeded_not_judged", 1);
            return;
        }
        Err(Some(m)) => {
            rep.violation("C14", &sig("panic"), &format!("parser panicked: {}", m), case(json!(null)));
            return;
        }
        Ok(Err(_)) => return,
        Ok(Ok(l)) => l,
    };
    rep.count("trees", 1);
    let mut errs: Vec<String> = vec![];
    let mut rebuilt = String::new();
    for (l, v, s, _e) in &leaves {
        if let Some(l) = l {
            rebuilt.push_str(l);
            if l.is_empty() || !l.chars().all(|c| c.is_whitespace()) {
                errs.push(format!("stored layout {:?} is not (non-empty) whitespace", l));
            }
        }
        if rebuilt.len() != *s {
            errs.push(format!("layout + texts before token {:?} have {} bytes but the token starts at {}", v, rebuilt.len(), s));
            break;
        }
        rebuilt.push_str(v);
    }
    if errs.is_empty() {
        if !input.starts_with(&rebuilt) {
            errs.push(format!("concatenation {:?} is not a prefix of the input", rebuilt));
        } else if !input[rebuilt.len()..].chars().all(|c| c.is_whitespace()) {
            errs.push(format!("what follows the last token, {:?}, is not layout", &input[rebuilt.len()..]));
        }
    }
    if !errs.is_empty() {
        rep.violation("C14", &sig("lossless"), &format!("generic tree does not reproduce the input: {}", errs.join("; ")), case(json!({"leaves": leaves.iter().map(|l| json!([l.0, l.1, l.2])).collect::<Vec<_>>()})));
    } else if leaves.iter().filter(|l| l.0.is_some()).count() >= 2 {
        rep.distinct("nontrivial", fnv(&format!("{}|{}", text, input)));
        rep.distinct("lexical_family_trees_with_layout", fnv(&format!("{}|{}", text, input)));
    }
}

/// One parser object over a history: before every sentence an input that fails after some shifts. The tree of the
/// sentence must still spell the sentence (the builder and the layout state of the object are reused).
pub fn judge_reuse(p: &Side, g: &AG, inputs: &[String], rep: &mut Rep) {
    if inputs.is_empty() {
        return;
    }
    let agj = g.to_json();
    let mut hist: Vec<String> = vec![];
    for i in inputs.iter().take(12) {
        hist.push(format!("{} \u{a7}", i));
        hist.push(i.clone());
    }
    let case = |upto: usize| json!({"grammar": p.text, "ag": agj, "family": p.family, "reuse_history": &hist[..upto]});
    crate::rep::watchdog::set(|| case(hist.len()).to_string());
    let mut results: Vec<Option<Vec<(Option<String>, String, usize)>>> = vec![];
    let r = guarded(|| {
        p.dy.lr_session(|parse| {
            for i in &hist {
                crate::rep::watchdog::touch();
                dynp::set_step_limit(20_000 * (i.len() as u64 + 1));
                results.push(parse(i).ok().map(|t| {
                    let mut leaves = vec![];
                    let mut shape = String::new();
                    let mut errs = vec![];
                    walk(&t, &mut leaves, &mut shape, &mut errs);
                    leaves.iter().map(|(l, v, s, _)| (l.map(|x| x.to_string()), v.to_string(), *s)).collect()
                }));
            }
        })
    });
    rep.count("parser_object_histories", 1);
    if r.is_err() {
        rep.count("history_panic_or_step_budget_not_judged_here", 1);
        return;
    }
    for (k, res) in results.iter().enumerate() {
        if k % 2 == 0 {
            continue;
        }
        let Some(leaves) = res else { continue };
        rep.count("parser_object_trees_judged", 1);
        let input = &hist[k];
        let mut rebuilt = String::new();
        let mut ok = true;
        for (l, v, s) in leaves {
            if let Some(l) = l {
                rebuilt.push_str(l);
            }
            if rebuilt.len() != *s {
                ok = false;
                break;
            }
            rebuilt.push_str(v);
        }
        if !ok || !input.starts_with(&rebuilt) || !is_layout(&input[rebuilt.len()..], p.family) {
            rep.violation("C14", &format!("reuse-lossless:{}:{}", fnv(&p.text), fnv(&hist[..=k].join("\u{1}"))), &format!("tree of a reused parser object (input {} of its history) does not reproduce its input {:?}: leaves spell {:?}", k + 1, input.chars().take(60).collect::<String>(), rebuilt.chars().take(60).collect::<String>()), case(k + 1));
            return;
        }
    }
}

pub fn run_lexical(g0: &AG, wd: &Workdir, rep: &mut Rep, rng: &mut Rng, only: Option<&str>) {
    let g = match only {
        Some(_) => g0.clone(),
        None => {
            let mut g = g0.clone();
            crate::c_diff::lexify(&mut g, rng);
            g
        }
    };
    let text = g.text();
    let agj = g.to_json();
    crate::rep::watchdog::set(|| json!({"grammar": text, "lexical": true}).to_string());
    let spec = SetSpec { ps: Some(true), pse: Some(true), ..SetSpec::lr(rng.below(2) as u8) };
    let c = wd.compile(&text, &spec);
    let (Outcome::Ok, Some(d)) = (&c.outcome, c.dump) else {
        rep.count("lexical_family_not_compiled", 1);
        return;
    };
    let Ok(dy) = Dyn::new(&d, spec.dyn_cfg()) else { return };
    rep.count("lexical_family_grammars", 1);
    match only {
        Some(i) => judge_roundtrip(&text, &agj, &dy, i, rep),
        None => {
            for input in crate::c06::all_inputs(&['a', 'b', 'c', '1', ' '], 5) {
                judge_roundtrip(&text, &agj, &dy, &input, rep);
                if input.contains(' ') && rng.chance(0.2) {
                    judge_roundtrip(&text, &agj, &dy, &input.replace(' ', *rng.pick(&["  ", "\n", " \t", "\u{a0}"])), rep);
                }
            }
        }
    }
}

pub fn run_grammar(g: &AG, wd: &Workdir, rep: &mut Rep, rng: &mut Rng, maxlen: usize) {
    // scope: conflict-free (LALR_PAGER default) without disambiguation
    let raw = wd.compile(&g.text(), &SetSpec::raw(1));
    let Some(d) = raw.dump else { return };
    if !conflict_free(&d) {
        rep.count("grammars_out_of_scope", 1);
        return;
    }
    rep.count("grammars_in_scope", 1);
    let mut sides = vec![];
    for family in 0u8..N_FAMILIES {
        let text = grammar_text(g, family);
        let c = wd.compile(&text, &SetSpec::lr(1));
        match (&c.outcome, c.dump) {
            (Outcome::Ok, Some(d)) => {
                if let Ok(dy) = Dyn::new(&d, dynp::Cfg::lr()) {
                    sides.push(Side { text, family, dy });
                }
            }
            (o, _) => {
                rep.harness_error(&format!("grammar with layout family {} not compiled: {}", family, o.show()), json!({"grammar": text}));
            }
        }
    }
    let l = len_for(g.terms.len(), maxlen, 400);
    let mut sentences: Vec<Vec<usize>> = all_strings(g.terms.len(), l).into_iter().filter(|w| crate::enumr::earley(g, w).0).collect();
    for _ in 0..4 {
        if let Some(w) = random_sentence(g, rng, l + 5) {
            if w.len() <= 12 {
                sentences.push(w);
            }
        }
    }
    let mut reuse_inputs: Vec<Vec<String>> = vec![vec![]; sides.len()];
    for w in sentences {
        if w.is_empty() {
            continue;
        }
        for (pi, p) in sides.iter().enumerate() {
            let (plain, _) = render_plain(g, &w);
            let ps = judge(p, g, &w, &plain, &None, rep, json!("plain"));
            if ps.is_none() {
                continue;
            }
            for _ in 0..2 {
                let n = w.len();
                let mut r2 = rng.clone();
                let fam = p.family;
                let lead = gen_layout(&mut r2, fam, true, false);
                let trail = gen_layout(&mut r2, fam, true, true);
                // tokens are single letters: layout between them may be empty
                let (input, _) = render(g, &w, |_| gen_layout(&mut r2, fam, true, false), &lead, &trail);
                *rng = r2;
                let _ = n;
                if reuse_inputs[pi].len() < 12 {
                    reuse_inputs[pi].push(input.clone());
                }
                judge(p, g, &w, &input, &ps, rep, json!("layout inserted"));
            }
        }
    }
    for (pi, p) in sides.iter().enumerate() {
        judge_reuse(p, g, &reuse_inputs[pi], rep);
    }
    rep.sample(json!({"grammar": sides.last().map(|s| s.text.clone()), "families": sides.iter().map(|s| s.family).collect::<Vec<_>>()}));
}

pub fn main(a: &Args) {
    let mut rep = Rep::new(a.out.as_deref());
    let wd = Workdir::new("c14");
    let mut rng = a.rng(14);
    if let Some(path) = &a.replay {
        let v: Value = serde_json::from_str(&std::fs::read_to_string(path).expect("read replay")).expect("json");
        let case = &v["case"];
        let g = AG::from_json(&case["ag"]);
        if let Some(h) = case["reuse_history"].as_array() {
            let family = case["family"].as_u64().unwrap() as u8;
            let text = grammar_text(&g, family);
            let c = wd.compile(&text, &SetSpec::lr(1));
            let d = c.dump.expect("dump");
            let side = Side { text, family, dy: Dyn::new(&d, dynp::Cfg::lr()).unwrap() };
            // the history is (bad, good) pairs: hand the good ones over, judge_reuse rebuilds the pairs
            let goods: Vec<String> = h.iter().enumerate().filter(|(k, _)| k % 2 == 1).map(|(_, x)| x.as_str().unwrap().to_string()).collect();
            judge_reuse(&side, &g, &goods, &mut rep);
            rep.finish();
            return;
        }
        if case["lexical"].as_bool() == Some(true) {
            run_lexical(&g, &wd, &mut rep, &mut rng, case["input"].as_str());
            rep.finish();
            return;
        }
        let family = case["family"].as_u64().unwrap() as u8;
        let text = grammar_text(&g, family);
        let c = wd.compile(&text, &SetSpec::lr(1));
        let d = c.dump.expect("dump");
        let side = Side { text, family, dy: Dyn::new(&d, dynp::Cfg::lr()).unwrap() };
        let w: Vec<usize> = case["tokens"].as_array().unwrap().iter().map(|x| x.as_u64().unwrap() as usize).collect();
        let (plain, _) = render_plain(&g, &w);
        let ps = judge(&side, &g, &w, &plain, &None, &mut rep, json!("plain"));
        judge(&side, &g, &w, case["input"].as_str().unwrap(), &ps, &mut rep, json!("replay"));
        rep.finish();
        return;
    }
    let (n, maxlen) = if a.thorough { (a.n.unwrap_or(1500), 6) } else { (a.n.unwrap_or(80), 5) };
    if a.shard == 0 {
        for (_, g) in corpus() {
            run_grammar(&g, &wd, &mut rep, &mut rng, maxlen);
        }
    }
    let mut i = 0;
    while i < n && rep.elapsed() < a.max_s {
        i += 1;
        if i % 4 == 1 {
            // overlapping recognisers on grammars whose LALR look-aheads are merged across contexts
            let g = match i % 12 {
                1 => gen_ctx(&mut rng),
                5 => gen_lists(&mut rng),
                _ => gen_bnf(&mut rng, &BnfOpts { max_nt: 5, max_t: 4, max_alts: 3, max_len: 4, p_empty: 0.15 }),
            };
            if g.reduced() && g.terms.len() <= 12 {
                run_lexical(&g, &wd, &mut rep, &mut rng, None);
            }
            continue;
        }
        let g = if i % 9 == 0 { gen_lists(&mut rng) } else { gen_bnf(&mut rng, &BnfOpts::default()) };
        if !g.reduced() {
            continue;
        }
        run_grammar(&g, &wd, &mut rep, &mut rng, maxlen);
    }
    rep.finish();
}
