//! C10 (generation side): default-builder parsers for `ast` grammars, LR and
//! GLR, builder_loc_info off/on, with sentences whose regex tokens carry unique
//! texts; the expectations (content tokens in input order, ?= presence flags,
//! uniqueness of the derivation) are recorded for the driver's judge.
use crate::astgen::*;
use crate::comp::*;
use crate::enumr::{Enum, Lattice};
use crate::groute::*;
use crate::rep::{Args, Rep};
use crate::rng::Rng;
use serde_json::{json, Value};
use std::fmt::Write as _;
use std::path::Path;

pub struct Sentence {
    pub input: String,
    pub content: Vec<String>,
    pub spans: Vec<(usize, usize)>,
    pub unique: bool,
    pub bools: Vec<bool>,
    pub absent_opts: usize,
    pub empty_stars: usize,
    pub empty_alts: usize,
    pub empty_alts_vec: usize,
}

pub fn sentences(g: &AstG, rng: &mut Rng, n: usize) -> Vec<Sentence> {
    let ag = g.desugar();
    let countable = ag.reduced() && ag.glr_scope();
    let mut out = vec![];
    let mut seen = std::collections::BTreeSet::new();
    for _ in 0..n * 3 {
        if out.len() >= n {
            break;
        }
        let mut d = Deriver::new(g);
        let mut toks = vec![];
        let mut ex = Expect::default();
        if !d.rule(0, rng, &mut toks, &mut ex, 0) || toks.is_empty() || toks.len() > 24 {
            continue;
        }
        let kinds: Vec<usize> = toks.iter().map(|t| t.term).collect();
        if !seen.insert((kinds.clone(), ex.bools.clone())) {
            continue;
        }
        let (input, spans) = render(&toks, rng);
        // Tree extraction weighs children with the un-memoised solutions(): keep the ambiguity moderate
        let count = if countable {
            let lin: Vec<(usize, usize, usize)> = kinds.iter().enumerate().map(|(i, k)| (*k, i, i + 1)).collect();
            let lat = Lattice::linear(&lin);
            Some(Enum::new(&ag, &lat).count_all())
        } else {
            None
        };
        if count.is_some_and(|c| c > 200) {
            continue;
        }
        let unique = count == Some(1);
        let content: Vec<String> = toks.iter().filter(|t| g.terms[t.term].lit.is_none() && Some(t.term) != g.flag_term).map(|t| t.text.clone()).collect();
        let cspans: Vec<(usize, usize)> = toks.iter().zip(spans.iter()).filter(|(t, _)| g.terms[t.term].lit.is_none() && Some(t.term) != g.flag_term).map(|(_, s)| *s).collect();
        out.push(Sentence { input, content, spans: cspans, unique, bools: ex.bools, absent_opts: ex.absent_opts, empty_stars: ex.empty_stars, empty_alts: ex.empty_alts, empty_alts_vec: ex.empty_alts_vec });
    }
    out
}

/// Checking code of one module: every sentence with a fresh parser, and (LR) with one reused parser object.
pub fn check_body(m: &str, inputs: &[String], glr: bool) -> String {
    let parser = format!("{}Parser", pascal(m));
            let mut body = String::new();
            writeln!(body, "    let inputs: &[&str] = &[{}];", inputs.iter().map(|s| format!("{:?}", s)).collect::<Vec<_>>().join(", ")).unwrap();
            if glr {
                writeln!(
                    body,
                    r#"    for (i, input) in inputs.iter().enumerate() {{
        let r = std::panic::catch_unwind(|| match {parser}::new().parse(input) {{
            Ok(f) => {{
                let n = f.solutions();
                let mut b = DefaultBuilder::new();
                format!("OK {{}} {{:?}}", n, f.get_first_tree().unwrap().build(&mut b))
            }}
            Err(e) => format!("ERR {{}}", e.to_pos_str().replace('\n', " ")),
        }});
        println!("P {{}} {{}}", i, r.unwrap_or("PANIC".to_string()));
        // the other trees of a small forest, each replayed through a fresh builder
        let others = std::panic::catch_unwind(|| {{
            let mut out: Vec<String> = vec![];
            if let Ok(f) = {parser}::new().parse(input) {{
                let n = f.solutions();
                if n >= 2 && n <= 6 {{
                    for k in 1..n {{
                        let mut b = DefaultBuilder::new();
                        out.push(format!("Q {{}} {{}} OK {{}} {{:?}}", i, k, n, f.get_tree(k).unwrap().build(&mut b)));
                    }}
                }}
            }}
            out
        }});
        match others {{
            Ok(o) => for l in o {{ println!("{{}}", l); }},
            Err(_) => println!("Q {{}} 1 PANIC", i),
        }}
    }}"#
                )
                .unwrap();
            } else {
                writeln!(
                    body,
                    r#"    for (i, input) in inputs.iter().enumerate() {{
        let r = std::panic::catch_unwind(|| match {parser}::new().parse(input) {{
            Ok(t) => format!("OK 1 {{:?}}", t),
            Err(e) => format!("ERR {{}}", e.to_pos_str().replace('\n', " ")),
        }});
        println!("P {{}} {{}}", i, r.unwrap_or("PANIC".to_string()));
    }}
    // the same parser object reused, with a failing parse (valid prefix, then garbage) before each sentence
    let shared = {parser}::new();
    for (i, input) in inputs.iter().enumerate() {{
        let bad: &'static str = Box::leak(format!("{{}} \u{{a7}}", input).into_boxed_str());
        let _ = std::panic::catch_unwind(std::panic::AssertUnwindSafe(|| shared.parse(bad).is_ok()));
        let r = std::panic::catch_unwind(std::panic::AssertUnwindSafe(|| match shared.parse(input) {{
            Ok(t) => format!("OK 1 {{:?}}", t),
            Err(e) => format!("ERR {{}}", e.to_pos_str().replace('\n', " ")),
        }}));
        println!("R {{}} {{}}", i, r.unwrap_or("PANIC".to_string()));
    }}"#
                )
                .unwrap();
            }
    body
}

pub fn emit(krate: &mut Crate, g: &AstG, sents: &[Sentence], rep: &mut Rep, group: usize, lexamb: bool) {
    let text = g.text();
    let ag = g.desugar();
    let countable = ag.reduced() && ag.glr_scope();
    for glr in [false, true] {
        if lexamb && !glr {
            continue;
        }
        if glr && !countable {
            // cyclic / epsilon-ambiguous expansion: forests may be cyclic or huge (outside C03's scope)
            rep.count("glr_skipped_out_of_scope", 1);
            continue;
        }
        if !glr && ag.cyclic() {
            // fence of the listed C15 finding lr-reduction-cycle-cyclic-grammar: such LR parsers may never return
            rep.count("lr_skipped_cyclic_grammar_fence", 1);
            continue;
        }
        for loc in [false, true] {
            let m = format!("g{}", krate.modules.len());
            // lexamb: longest match off, so that the GLR forest holds trees over different tokenisations
            let spec = SetSpec { glr, builder: 0, loc_info: loc, ps: if glr { None } else { Some(true) }, lm: !lexamb, ..Default::default() };
            let c = generate_into(&krate.src(), &m, &text, &spec);
            rep.count("evaluations", 1);
            if lexamb {
                rep.count("lexically_ambiguous_modules", 1);
            }
            if !c.outcome.is_ok() {
                if std::env::var("VH_DEBUG").is_ok() {
                    eprintln!("REJECTED {}\n{}", c.outcome.show(), text);
                }
                rep.count("rejected_by_compiler", 1);
                for sfx in [".rustemo", ".rs", "_actions.rs"] {
                    let _ = std::fs::remove_file(krate.src().join(format!("{}{}", m, sfx)));
                }
                continue;
            }
            krate.extra_mods.push(format!("{}_actions", m));
            let inputs: Vec<String> = sents.iter().map(|s| s.input.clone()).collect();
            let body = check_body(&m, &inputs, glr);
            krate.modules.push(Module {
                name: m.clone(),
                check_fn: wrap_check_fn(&m, &body),
                expected: vec![],
                info: json!({"grammar": text, "settings": spec.to_json(), "group": group,
                    "sentences": sents.iter().map(|s| json!({"lexamb": lexamb, "input": s.input, "content": s.content, "spans": s.spans, "unique": s.unique, "bools": s.bools,
                        "absent_opts": s.absent_opts, "empty_stars": s.empty_stars, "empty_alts": s.empty_alts, "empty_alts_vec": s.empty_alts_vec})).collect::<Vec<_>>()}),
            });
            rep.count("modules", 1);
        }
    }
}

pub fn main(a: &Args) {
    let mut rep = Rep::new(a.out.as_deref());
    let mut rng = a.rng(10);
    let dir = a.extra.get("crate-dir").expect("--crate-dir");
    let mut krate = Crate::new(Path::new(dir));
    if let Some(path) = &a.replay {
        let v: Value = serde_json::from_str(&std::fs::read_to_string(path).expect("read replay")).expect("json");
        let info = &v["case"]["info"];
        // replay re-generates the module with the recorded sentences
        let text = info["grammar"].as_str().unwrap();
        let spec = SetSpec::from_json(&info["settings"]);
        let m = "g0".to_string();
        let c = generate_into(&krate.src(), &m, text, &spec);
        if c.outcome.is_ok() {
            krate.extra_mods.push("g0_actions".into());
            let inputs: Vec<String> = info["sentences"].as_array().unwrap().iter().map(|s| s["input"].as_str().unwrap().to_string()).collect();
            let body = check_body(&m, &inputs, spec.glr);
            krate.modules.push(Module { name: m.clone(), check_fn: wrap_check_fn(&m, &body), expected: vec![], info: info.clone() });
        }
    } else {
        let n = a.n.unwrap_or(3);
        let mut made = 0;
        let mut tries = 0;
        if a.shard % 4 == 1 {
            let g = gen_lex_amb(&mut rng);
            let sents: Vec<Sentence> = sentences(&g, &mut rng, 40).into_iter().filter(|s| s.content.len() <= 4).take(12).collect();
            rep.count("lexically_ambiguous_sentences", sents.len() as u64);
            if sents.len() >= 2 {
                emit(&mut krate, &g, &sents, &mut rep, 900 + 1000 * a.shard as usize, true);
            }
        }
        while made < n && tries < n * 30 {
            tries += 1;
            let mut g = gen_ast(&mut rng);
            // fence of the listed finding qassign-not-implemented: `?=` is written as `=` here
            // (the dedicated Flag terminal then is an ordinary content terminal)
            for r in &mut g.rules {
                for a in &mut r.alts {
                    for it in &mut a.items {
                        if let Some((_, b)) = &mut it.assign {
                            *b = false;
                        }
                    }
                }
            }
            g.flag_term = None;
            if !g.productive() {
                continue;
            }
            let sents = sentences(&g, &mut rng, if a.thorough { 14 } else { 10 });
            if sents.len() < 3 {
                continue;
            }
            let before = krate.modules.len();
            emit(&mut krate, &g, &sents, &mut rep, made + 1000 * a.shard as usize, false);
            if krate.modules.len() > before {
                made += 1;
            }
        }
    }
    krate.finish(&format!("s{}", a.shard));
    rep.finish();
}
