//! JSONL reporter shared by all workers. One line per violation (written at
//! once), one `stat` line at the end with counters, distinct-hash sets and
//! samples. The python driver aggregates shards.
use serde_json::{json, Value};
use std::collections::{BTreeMap, BTreeSet};
use std::io::Write;

pub struct Rep {
    out: Box<dyn Write>,
    pub counters: BTreeMap<String, u64>,
    pub distinct: BTreeMap<String, BTreeSet<u64>>,
    pub samples: Vec<Value>,
    pub max_samples: usize,
    pub nviol: u64,
    pub written_viol: u64,
    pub max_viol: u64,
    pub maxes: BTreeMap<String, u64>,
    pub start: std::time::Instant,
}

impl Rep {
    pub fn new(path: Option<&str>) -> Rep {
        let out: Box<dyn Write> = match path {
            Some(p) => Box::new(std::fs::File::create(p).expect("create out file")),
            None => Box::new(std::io::stderr()),
        };
        Rep {
            out,
            counters: BTreeMap::new(),
            distinct: BTreeMap::new(),
            samples: vec![],
            max_samples: 3,
            nviol: 0,
            written_viol: 0,
            max_viol: std::env::var("VH_MAX_VIOL").ok().and_then(|x| x.parse().ok()).unwrap_or(25),
            maxes: BTreeMap::new(),
            start: std::time::Instant::now(),
        }
    }
    pub fn count(&mut self, k: &str, n: u64) {
        *self.counters.entry(k.to_string()).or_insert(0) += n;
    }
    pub fn max(&mut self, k: &str, v: u64) {
        let e = self.maxes.entry(k.to_string()).or_insert(0);
        if v > *e {
            *e = v;
        }
    }
    pub fn distinct(&mut self, k: &str, h: u64) {
        self.distinct.entry(k.to_string()).or_default().insert(h);
    }
    pub fn sample(&mut self, v: Value) {
        if self.samples.len() < self.max_samples {
            self.samples.push(v);
        }
    }
    /// A witnessed violation. `sig` identifies the failing input/call site for
    /// the known-findings file; `case` must contain everything needed to replay.
    pub fn violation(&mut self, prop: &str, sig: &str, what: &str, case: Value) {
        self.nviol += 1;
        if self.written_viol < self.max_viol {
            self.written_viol += 1;
            let line = json!({"k": "viol", "prop": prop, "sig": sig, "what": what, "case": case});
            writeln!(self.out, "{}", line).unwrap();
            self.out.flush().unwrap();
        }
    }
    /// Still-failing known witness (driver prints KNOWN-FINDING).
    pub fn known(&mut self, prop: &str, id: &str, what: &str) {
        let line = json!({"k": "known", "prop": prop, "id": id, "what": what});
        writeln!(self.out, "{}", line).unwrap();
    }
    pub fn inconclusive(&mut self, why: &str) {
        self.count(&format!("inconclusive:{}", why), 1);
    }
    /// Harness/oracle problem: never a violation.
    pub fn harness_error(&mut self, what: &str, case: Value) {
        self.count("harness_errors", 1);
        let line = json!({"k": "harness_error", "what": what, "case": case});
        writeln!(self.out, "{}", line).unwrap();
    }
    pub fn elapsed(&self) -> f64 {
        self.start.elapsed().as_secs_f64()
    }
    pub fn finish(mut self) {
        let distinct: BTreeMap<String, Vec<u64>> = self.distinct.iter().map(|(k, v)| (k.clone(), v.iter().cloned().collect())).collect();
        let line = json!({"k": "stat", "counters": self.counters, "maxes": self.maxes, "distinct": distinct, "samples": self.samples,
                          "violations": self.nviol, "wall_s": self.start.elapsed().as_secs_f64()});
        writeln!(self.out, "{}", line).unwrap();
        self.out.flush().unwrap();
    }
}

/// Wall-clock watchdog: the main loop publishes the case it is working on; if
/// one case stays current for longer than the limit the worker records it as
/// *stuck* (inconclusive — wall-clock never decides a violation) and exits
/// with code 3 so that the driver can tell it from a crash.
pub mod watchdog {
    use std::sync::atomic::{AtomicBool, Ordering};
    use std::sync::{Mutex, OnceLock};
    use std::time::Instant;
    static CUR: OnceLock<Mutex<(String, Option<String>)>> = OnceLock::new();
    /// set()/touch() only raise this flag; the watchdog thread does the clock reading.
    static PROGRESS: AtomicBool = AtomicBool::new(false);
    /// CPU seconds (user + system) this process has consumed, from /proc/self/stat (USER_HZ = 100 on Linux).
    fn cpu_s() -> Option<f64> {
        let s = std::fs::read_to_string("/proc/self/stat").ok()?;
        let rest = &s[s.rfind(')')? + 1..];
        let f: Vec<&str> = rest.split_whitespace().collect();
        Some((f.get(11)?.parse::<f64>().ok()? + f.get(12)?.parse::<f64>().ok()?) / 100.0)
    }
    /// A case is *stuck* (inconclusive, never a violation) when the process has burnt more than `limit_s` seconds of
    /// CPU since the last progress mark: a loop that does not end burns CPU, whereas a frozen or overloaded machine,
    /// or a stalled disk, does not - the wall clock fired on all 16 workers at once while the sandbox was being
    /// snapshotted (DESIGN.md section 5). Wall-clock seconds are the fallback where /proc is not readable.
    /// `total_s`: generous wall-clock bound on the whole worker (several times its own time budget); a worker that is
    /// still running then is recorded as stuck as well - its loops only look at the budget between grammars.
    pub fn start(out_path: Option<String>, limit_s: f64, total_s: f64) {
        CUR.get_or_init(|| Mutex::new((String::new(), out_path)));
        let t0 = Instant::now();
        std::thread::spawn(move || {
            let clock = move || cpu_s().unwrap_or_else(|| t0.elapsed().as_secs_f64());
            let mut base = clock();
            let mut base_wall = Instant::now();
            loop {
                std::thread::sleep(std::time::Duration::from_millis(500));
                let now = clock();
                let g = CUR.get().unwrap().lock().unwrap();
                if t0.elapsed().as_secs_f64() > total_s {
                    if let Some(p) = &g.1 {
                        use std::io::Write;
                        if let Ok(mut f) = std::fs::OpenOptions::new().append(true).open(p) {
                            let _ = writeln!(f, "{}", serde_json::json!({"k": "stuck", "limit_s": total_s, "case": {"whole_worker": true, "last_case": serde_json::from_str::<serde_json::Value>(&g.0).unwrap_or(serde_json::Value::Null)}}));
                        }
                    }
                    eprintln!("watchdog: worker still running after {total_s}s");
                    std::process::exit(3);
                }
                // (a worker that waits for a child process burns no CPU: ten times the limit in wall-clock seconds)
                if PROGRESS.swap(false, Ordering::Relaxed) {
                    base = now;
                    base_wall = Instant::now();
                } else if !g.0.is_empty() && (now - base > limit_s || base_wall.elapsed().as_secs_f64() > 10.0 * limit_s) {
                    if let Some(p) = &g.1 {
                        use std::io::Write;
                        if let Ok(mut f) = std::fs::OpenOptions::new().append(true).open(p) {
                            let _ = writeln!(f, "{}", serde_json::json!({"k": "stuck", "limit_s": limit_s, "case": serde_json::from_str::<serde_json::Value>(&g.0).unwrap_or(serde_json::Value::Null)}));
                        }
                    }
                    eprintln!("watchdog: case stuck for more than {limit_s}s of CPU: {}", g.0);
                    std::process::exit(3);
                }
            }
        });
    }
    pub fn set(case: impl FnOnce() -> String) {
        if let Some(m) = CUR.get() {
            m.lock().unwrap().0 = case();
            PROGRESS.store(true, Ordering::Relaxed);
        }
    }
    /// Progress inside the current case (e.g. the next input of the same grammar): restarts the clock only.
    pub fn touch() {
        PROGRESS.store(true, Ordering::Relaxed);
    }
    pub fn clear() {
        if let Some(m) = CUR.get() {
            m.lock().unwrap().0.clear();
        }
    }
}

pub struct Args {
    pub seed: u64,
    pub shard: u64,
    pub nshards: u64,
    pub thorough: bool,
    pub out: Option<String>,
    pub prop: String,
    pub replay: Option<String>,
    pub n: Option<usize>,
    pub max_s: f64,
    pub extra: BTreeMap<String, String>,
}

impl Args {
    pub fn parse(args: &[String]) -> Args {
        let mut a = Args { seed: 0, shard: 0, nshards: 1, thorough: false, out: None, prop: String::new(), replay: None, n: None, max_s: 1e9, extra: BTreeMap::new() };
        let mut i = 0;
        while i < args.len() {
            let k = args[i].as_str();
            let v = args.get(i + 1).cloned().unwrap_or_default();
            match k {
                "--seed" => a.seed = v.parse().expect("seed"),
                "--shard" => a.shard = v.parse().expect("shard"),
                "--nshards" => a.nshards = v.parse().expect("nshards"),
                "--tier" => a.thorough = v == "thorough",
                "--out" => a.out = Some(v),
                "--prop" => a.prop = v,
                "--replay" => a.replay = Some(v),
                "--n" => a.n = Some(v.parse().expect("n")),
                "--max-s" => a.max_s = v.parse().expect("max-s"),
                _ => {
                    if let Some(name) = k.strip_prefix("--") {
                        a.extra.insert(name.to_string(), v);
                    } else {
                        panic!("bad arg {k}");
                    }
                }
            }
            i += 2;
        }
        a
    }
    pub fn rng(&self, stream: u64) -> crate::rng::Rng {
        crate::rng::Rng::derive(self.seed, self.shard, stream)
    }
}
