#!/bin/bash
# usage: try_mutant_ns.sh <patch.diff> <tier> <prop> [<prop>...]
# Like try_mutant.sh, but leaves /repo and /verif untouched: a scratch clone of /repo with the patch applied is
# bind-mounted over /repo inside a private mount namespace, and a scratch copy of /verif (own target dir) runs the checks.
# Lets seeded changes be tried while long checks run against the real /repo.
set -u
patch=$(readlink -f "$1"); tier=$2; shift 2
mr=/tmp/mrepo${NS_TAG:-}; mv=/tmp/mverif${NS_TAG:-}
mkdir -p $mr $mv
# --checksum without -t: a file whose content changed (also back to the original) gets a fresh mtime, otherwise cargo's
# mtime fingerprints would keep the object code of the previous seeded change
rsync -rlpgoD --checksum --delete --exclude target --exclude .git /repo/ $mr/ || exit 2
(cd $mr && patch -p1 --quiet < "$patch") || { echo "patch does not apply"; exit 2; }
rsync -rlpgoD --checksum --delete --exclude target --exclude evidence --exclude .git /verif/ $mv/ || exit 2
mkdir -p $mv/evidence
unshare -m bash -c "mount --bind $mr /repo && cd $mv && for p in $*; do out=\$(./check \$p --tier $tier 2>&1); rc=\$?; nv=\$(echo \"\$out\" | grep -c '^VIOLATION'); echo \"== \$p rc=\$rc violations_printed=\$nv\"; echo \"\$out\" | grep -A1 '^VIOLATION' | head -6 | cut -c1-300; echo \"\$out\" | grep -E 'HARNESS-ERROR|INCONCLUSIVE' | head -3 | cut -c1-300; done"
