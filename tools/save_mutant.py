#!/usr/bin/env python3
"""save_mutant.py <dirname> <property> <src_out_dir> <needs> <caught_by> <confirm>"""
import json, os, shutil, sys
name, prop, src, needs, caught, confirm = sys.argv[1:7]
dst = os.path.join('/verif/seeded', name)
shutil.rmtree(dst, ignore_errors=True)
os.makedirs(dst)
for f in os.listdir(src):
    p = os.path.join(src, f)
    if f == 'target' or f.endswith('.log') and os.path.getsize(p) > 200000:
        continue
    if os.path.isdir(p):
        shutil.copytree(p, os.path.join(dst, f), ignore=shutil.ignore_patterns('target', 'Cargo.lock'))
    else:
        shutil.copy(p, dst)
meta = {"property": prop, "breaks": prop, "origin": "independent sub-agent given only the property text and a scratch worktree",
        "needs_to_manifest": needs, "confirmed": confirm, "caught_by": caught.split(','),
        "how_to_run": "git -C /repo apply /verif/seeded/%s/patch.diff && (cd /verif && ./check <id> --tier quick); git -C /repo checkout -- ." % name}
json.dump(meta, open(os.path.join(dst, 'meta.json'), 'w'), indent=1)
print('saved', dst, sorted(os.listdir(dst)))
