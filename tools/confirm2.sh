#!/bin/bash
# usage: confirm2.sh <worktree> <demo-subdir-or-.> <demo command...>
# In the sub-agent's scratch worktree: (1) worktree diff == _out/patch.diff, (2) demo fails with the change and passes
# without it (git apply -R / git apply), (3) the repository's own suite passes with the change.
wt=$1; sub=$2; shift 2
cd $wt || exit 2
export CARGO_NET_OFFLINE=true
git diff > $wt.curdiff
if ! diff -q <(grep -v '^index ' $wt.curdiff) <(grep -v '^index ' _out/patch.diff) >/dev/null; then echo "NOTE $wt: worktree diff differs from patch.diff; resetting to patch"; git checkout -- . ; git apply _out/patch.diff || exit 2; fi
(cd $sub && bash -c "$*") > $wt.with.txt 2>&1; rc1=$?
git apply -R _out/patch.diff || exit 2
(cd $sub && bash -c "$*") > $wt.without.txt 2>&1; rc2=$?
git apply _out/patch.diff || exit 2
cargo test --workspace --no-fail-fast --offline > $wt.suite.txt 2>&1; rc3=$?
pass=$(grep -E "^test result" $wt.suite.txt | awk '{p+=$4; f+=$6} END{print p" passed "f" failed"}')
echo "CONFIRM $wt: with_change_exit=$rc1 without_change_exit=$rc2 suite_exit=$rc3 ($pass)"
