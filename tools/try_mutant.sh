#!/bin/bash
# usage: try_mutant.sh <patch.diff> <tier> <prop> [<prop>...]
# Applies the patch to /repo, runs the given checks, and always restores /repo.
set -u
patch=$1; tier=$2; shift 2
cd /repo || exit 2
if [ -n "$(git status --porcelain --untracked-files=no)" ]; then echo "/repo not clean"; exit 2; fi
git apply "$patch" || { echo "patch does not apply"; exit 2; }
trap 'git -C /repo checkout -- . ; echo "[repo restored]"' EXIT
cd /verif
for p in "$@"; do
  out=$(./check $p --tier $tier 2>&1); rc=$?
  nv=$(echo "$out" | grep -c "^VIOLATION")
  echo "== $p rc=$rc violations_printed=$nv"
  echo "$out" | grep -A1 "^VIOLATION" | head -6 | cut -c1-300
  echo "$out" | grep -E "HARNESS-ERROR|INCONCLUSIVE" | head -3 | cut -c1-300
done
