#!/bin/bash
# usage: confirm_mutant.sh <id> <run|test>   (in the agent's scratch worktree /tmp/mut/<id>)
# Confirms: patch == worktree diff, demo fails with the change, passes without it.
id=$1; mode=${2:-run}
wt=/tmp/mut/$id
cd $wt || exit 2
git diff > /tmp/mut/$id.curdiff
if ! diff -q <(grep -v '^index ' /tmp/mut/$id.curdiff) <(grep -v '^index ' _out/patch.diff) >/dev/null; then echo "NOTE: worktree diff differs from patch.diff"; fi
export CARGO_NET_OFFLINE=true CARGO_TARGET_DIR=$wt/target/confirm-demo
cd _out/demo
if [ $mode = test ]; then cmd="cargo test --offline -- --test-threads=1"; else cmd="cargo run --offline"; fi
$cmd > /tmp/mut/$id.with.txt 2>&1; rc1=$?
(cd $wt && git stash -q)
$cmd > /tmp/mut/$id.without.txt 2>&1; rc2=$?
(cd $wt && git stash pop -q)
echo "CONFIRM $id: with_change_exit=$rc1 without_change_exit=$rc2"
