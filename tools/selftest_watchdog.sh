#!/bin/bash
# Self-test of the stuck-case watchdog (harness/src/rep.rs): it counts CPU seconds of the worker since the last progress
# mark, so a case that spins is stopped (exit 3, a "stuck" record = INCONCLUSIVE) while a frozen machine, an overloaded
# one or a stalled disk does not stop anything.
set -u
VH=/verif/target/vh/debug/vh
out=$(mktemp); : > $out
VH_STUCK_S=2 $VH wd-selftest-spin --out $out 2>/dev/null; rc1=$?
grep -q '"k":"stuck"' $out; rec=$?
VH_STUCK_S=2 $VH wd-selftest-sleep --out $out >/dev/null 2>&1; rc2=$?
rm -f $out
echo "spin: exit=$rc1 (want 3) stuck-record=$([ $rec = 0 ] && echo yes || echo no); sleep 3x the limit: exit=$rc2 (want 0)"
[ $rc1 = 3 ] && [ $rec = 0 ] && [ $rc2 = 0 ]
