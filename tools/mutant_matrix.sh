#!/bin/bash
# Runs every seeded change against the checks its meta.json names (quick tier) and prints a table.
# Uses tools/try_mutant_ns.sh: /repo and /verif themselves are not touched (private mount namespace over scratch copies).
cd /verif
echo "| seeded change | check | caught (quick, seed ${VERIF_SEED:-0}) |"
echo "|---|---|---|"
for d in seeded/*/; do
  id=$(basename $d)
  [ -f $d/patch.diff ] || continue
  checks=$(python3 -c "import json;print(' '.join(json.load(open('$d/meta.json'))['caught_by']))")
  out=$(tools/try_mutant_ns.sh $d/patch.diff quick $checks 2>&1)
  if echo "$out" | grep -q "patch does not apply"; then echo "| $id | - | patch no longer applies |"; continue; fi
  echo "$out" | grep "^== " | while read _ c rc nv; do echo "| $id | $c | $rc $nv |"; done
done
