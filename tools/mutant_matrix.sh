#!/bin/bash
# Runs every seeded change against the checks its meta.json names (quick tier) and prints a table.
# /repo must be clean; it is restored after every change.
cd /verif
echo "| seeded change | check | caught (quick, seed ${VERIF_SEED:-0}) |"
echo "|---|---|---|"
for d in seeded/*/; do
  id=$(basename $d)
  [ -f $d/patch.diff ] || continue
  checks=$(python3 -c "import json;print(' '.join(json.load(open('$d/meta.json'))['caught_by']))")
  if ! git -C /repo apply --check $d/patch.diff 2>/dev/null; then echo "| $id | - | patch no longer applies |"; continue; fi
  git -C /repo apply $d/patch.diff
  for c in $checks; do
    out=$(./check $c --tier quick 2>&1); rc=$?
    nv=$(echo "$out" | grep -c "^VIOLATION")
    echo "| $id | $c | rc=$rc violations=$nv |"
  done
  git -C /repo checkout -- .
done
